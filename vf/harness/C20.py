"""C20 - A schedule shows the value its calendar dictates at every instant, never stale.

Harnesses (reference models: vf/ref/C20_dates.py, C20_sched.py, C20_clock.py):

* match_date, match_weeknday, match_date_range, calendar_entry - the real date matchers
  against matchers written from clauses 20.2.12 / 21, date and pattern octets symbolic.
* eval_ref - LocalScheduleInterpreter.eval on a schedule with symbolic content against a
  direct interpreter of clause 12.24 (value), plus progress and no-staleness of the
  reported next transition.
* sched_run - a LocalScheduleObject driven by its own timer through the real core.run on
  the virtual clock, started and probed at symbolic instants, across midnights and both
  edges of the effective period.

Violation kinds that name one specific suspect (everything else is a plain mismatch):
  date-range-open-ended          a date inside a range with an unspecified limit is refused
                                 (sig: start_unspecified / end_unspecified / on_limit)
  stale-window (sig tie=true)    value changes before the reported next transition when two
                                 exceptions in force share a priority
  eval-none-outside-period       the event loop logged a TypeError from the interpreter task
                                 while the clock was outside the effective period
  schedule-stops-at-period-edge  started before the period, wrong present value inside it
  timer-livelock                 the timer is re-armed at or before "now" (loop spins)
"""
from ..api import Inst, Violation, HarnessError, meta
from ..ref import C20_dates as R

from ..ref import C20_sched as T
from ..ref import C20_clock as C
from ..world import World

import time as _real_time
import bacpypes.primitivedata as PD

from bacpypes.primitivedata import Integer, Null
from bacpypes.constructeddata import ArrayOf, ListOf
from bacpypes.basetypes import (CalendarEntry, DailySchedule, DateRange, SpecialEvent,
                                SpecialEventPeriod, TimeValue)
from bacpypes.object import CalendarObject
from bacpypes.app import Application
from bacpypes.local.device import LocalDeviceObject
from bacpypes.local import schedule as S

_bad = R.selftest()
if _bad:
    raise HarnessError("C20 reference calendar disagrees with datetime: %r" % (_bad,))
_bad = T.selftest()
if _bad:
    raise HarnessError("C20 reference interpreter disagrees with the repository's blessed schedule: %r" % (_bad,))
_bad = C.conformance()
if _bad:
    raise HarnessError("C20 UTC clock model disagrees with time.localtime/mktime: %r" % (_bad,))


# ====================================================================== date matchers
def draw_date(d, p='', months=(1, 12), maxday=31):
    """every calendar day 1900-01-01 .. 2154-12-31 (of the given months) as a bacpypes date
    tuple; the day of week is tied to the date by the reference ordinal formula"""
    y = d.int(0, 254, p + 'year')
    m = d.int(months[0], months[1], p + 'month')
    day = d.int(1, maxday, p + 'day')
    if maxday > 28:
        d.assume(day <= R.month_len(y + 1900, m))
    return (y, m, day, R.day_of_week(y + 1900, m, day))


def draw_date_pattern(d):
    yp = d.int(0, 255, 'year_p')
    mp = d.int(0, 255, 'month_p')
    dp = d.int(0, 255, 'day_p')
    wp = d.int(0, 255, 'dow_p')
    d.assume(R.month_code_ok(mp))
    d.assume(R.day_code_ok(dp))
    d.assume(R.dow_code_ok(wp))
    return (yp, mp, dp, wp)


def draw_range_end(d, p, kind=None, dow=None, maxday=31):
    """a range limit: wholly unspecified, or a specific valid date whose day-of-week octet
    is the right one or X'FF' (kind / dow None: chosen symbolically)"""
    if kind is None:
        kind = 'unspecified' if d.bool(p + '_unspecified') else 'specific'
    if kind == 'unspecified':
        return R.UNSPECIFIED
    y, m, day, w = draw_date(d, p + '_', maxday=maxday)
    if dow is None:
        dow = 'any' if d.bool(p + '_dow_any') else 'right'
    if dow == 'any':
        w = 255
    return (y, m, day, w)


def draw_weeknday(d):
    wnd = d.bytes(3, name='weeknday')
    d.assume(R.month_code_ok(wnd[0]))
    d.assume(R.week_code_ok(wnd[1]))
    d.assume(R.dow_code_ok(wnd[2]))
    return wnd


DATE_BOUNDS = ("date: every calendar day 1900-01-01..2154-12-31 of months[0]..months[1] (year, month, day symbolic; "
               "day of week = reference ordinal formula of the date)")
DATE_OUTSIDE = ("pattern octets that are not code points of clause 20.2.12 / 21 (month 0, 15..254; day 0, 35..254; "
                "day of week 0, 8..254; week of month 0, 10..254); dates whose day-of-week octet contradicts the date")


@meta(bounds=DATE_BOUNDS + "; pattern: year octet 0..255, month in {1..14, 255}, day in {1..34, 255}, "
             "day of week in {1..7, 255}, all symbolic",
      outside=DATE_OUTSIDE, stubs=[], assumes=[])
def match_date(d, months=(1, 12)):
    date = draw_date(d, months=months)
    pat = draw_date_pattern(d)
    got = S.match_date(date, pat)
    want = R.match_date(date, pat)
    if bool(got) != want:
        raise Violation("match-date", date=date, pattern=pat, got=got, want=want)
    d.reach()


@meta(bounds=DATE_BOUNDS + "; weekNDay: three symbolic octets, month in {1..14, 255}, week of month in {1..9, 255}, "
             "day of week in {1..7, 255}",
      outside=DATE_OUTSIDE, stubs=[], assumes=[])
def match_weeknday(d, months=(1, 12)):
    date = draw_date(d, months=months)
    wnd = draw_weeknday(d)
    got = S.match_weeknday(date, wnd)
    want = R.match_weeknday(date, (wnd[0], wnd[1], wnd[2]))
    if bool(got) != want:
        raise Violation("match-weeknday", date=date, weeknday=bytes(wnd), got=got, want=want)
    d.reach()


def range_sig(date, start, end):
    """what identifies an open-ended-range finding: which limit is unspecified, and whether the
    date sits exactly on a specific limit (then an off-by-one at that limit is the other suspect)"""
    su, eu = R.is_unspecified(start), R.is_unspecified(end)
    on_limit = (not su and date[:3] == start[:3]) or (not eu and date[:3] == end[:3])
    return dict(start_unspecified=su, end_unspecified=eu, on_limit=on_limit, date=date, start=start, end=end)


def _range_verdict(d, date, start, end, got, kind):
    want = R.match_date_range(date, start, end)
    if bool(got) != want:
        # d.flag: an open (known) finding on open-ended ranges must not hide the rest.  The
        # open-ended kind: a date that belongs to a range with an unspecified limit is refused;
        # the signature says which limit is unspecified and whether the date sits on the other.
        sig = range_sig(date, start, end)
        open_ended = want and (sig['start_unspecified'] or sig['end_unspecified'])
        d.flag(True, "date-range-open-ended" if open_ended else kind, got=got, want=want, **sig)


@meta(bounds=DATE_BOUNDS + "; start / end date per instance either wholly unspecified (FF FF FF FF) or any specific "
             "calendar day 1900..2154 (symbolic) with its day-of-week octet right or FF (`dow`, the same choice for both "
             "limits); start > end included (empty range)",
      outside="range limits with some but not all octets unspecified; " + DATE_OUTSIDE, stubs=[], assumes=[])
def match_date_range(d, start, end, dow='right'):
    date = draw_date(d)
    lo = draw_range_end(d, 'start', start, dow)
    hi = draw_range_end(d, 'end', end, dow)
    got = S.match_date_range(date, DateRange(startDate=lo, endDate=hi))
    _range_verdict(d, date, lo, hi, got, "match-date-range")
    d.reach()


@meta(bounds="as match_date / match_date_range / match_weeknday, the pattern wrapped in a BACnetCalendarEntry of the given "
             "choice; maxday=28: the date (and range limits) only on days 1..28 of a month; range limits: unspecified or "
             "specific, day-of-week octet right or FF, all four choices symbolic",
      outside=DATE_OUTSIDE, stubs=[], assumes=[])
def calendar_entry(d, choice, months=(1, 12), maxday=31, start=None, end=None, dow=None):
    date = draw_date(d, months=months, maxday=maxday)
    if choice == 'date':
        pat = draw_date_pattern(d)
        got = S.date_in_calendar_entry(date, CalendarEntry(date=pat))
        want = R.match_date(date, pat)
        if bool(got) != want:
            raise Violation("calendar-entry-date", date=date, pattern=pat, got=got, want=want)
    elif choice == 'dateRange':
        lo = draw_range_end(d, 'start', start, dow, maxday=maxday)
        hi = draw_range_end(d, 'end', end, dow, maxday=maxday)
        got = S.date_in_calendar_entry(date, CalendarEntry(dateRange=DateRange(startDate=lo, endDate=hi)))
        _range_verdict(d, date, lo, hi, got, "calendar-entry-range")
    else:
        wnd = draw_weeknday(d)
        got = S.date_in_calendar_entry(date, CalendarEntry(weekNDay=wnd))
        want = R.match_weeknday(date, (wnd[0], wnd[1], wnd[2]))
        if bool(got) != want:
            raise Violation("calendar-entry-weeknday", date=date, weeknday=bytes(wnd), got=got, want=want)
    d.reach()


# ====================================================================== eval vs. clause 12.24
# concrete representative days: leap day (Thursday), a Sunday that ends a year, a Monday that
# starts one -- day of week 4, 7 (last weekly element) and 1 (first weekly element)
DAYS = {'leapday': (124, 2, 29, 4), 'sunday': (123, 12, 31, 7), 'monday': (101, 1, 1, 1)}
WIDE = ((0, 1, 1, 1), (254, 12, 31, 2))      # the effective period of the repository's own tests
V_DEFAULT = 7
V_INITIAL = 0


def sym_code(d, name, lo, hi):
    """symbolic octet over {lo..hi, 255} without a branch"""
    x = d.int(lo, hi + 1, name)
    return x + (x // (hi + 1)) * (255 - (hi + 1))


def draw_time(d, p, res='hm'):
    """res 'hm': hour and minute symbolic; 'h': hour symbolic, on the hour; 'm': minute
    symbolic, within the hour after noon"""
    if res == 'h':
        return (d.int(0, 23, p + 'h'), 0, 0, 0)
    if res == 'm':
        return (12, d.int(0, 59, p + 'm'), 0, 0)
    return (d.int(0, 23, p + 'h'), d.int(0, 59, p + 'm'), 0, 0)


def draw_tvs(d, n, base, p, res='hm'):
    """n time-values in strictly increasing time order, values base+1.. (all distinct) or NULL"""
    out = []
    prev = None
    for k in range(n):
        t = draw_time(d, '%s%d_' % (p, k), res)
        if prev is not None:
            d.assume(T.tkey(prev) < T.tkey(t))
        v = base + k + 1
        if d.bool('%s%d_null' % (p, k)):
            v = None
        out.append((t, v))
        prev = t
    return out


def near_days(day, last):
    return max(1, day - 1), min(last, day + 1)


def draw_entry(d, kind, date, p):
    """a calendar entry with symbolic content that may or may not contain `date` (the full
    pattern space is the subject of the match_* harnesses)"""
    y, m, day, dow = date
    if kind == 'date':
        return ('date', (255, 255, 255, sym_code(d, p + 'dow_p', 1, 7)))
    if kind == 'any':
        return ('date', (255, 255, 255, 255))
    if kind == 'dow':
        # a specific day of week: that of the day or a neighbouring one
        lo = dow if dow < 7 else dow - 1
        return ('date', (255, 255, 255, d.int(lo, lo + 1, p + 'dow_p')))
    if kind == 'range':
        lo, hi = near_days(day, R.month_len(y + 1900, m))
        return ('range', (y, m, d.int(lo, hi, p + 'from_day'), 255), (y, m, d.int(lo, hi, p + 'to_day'), 255))
    if kind == 'wnd':
        return ('wnd', (255, 255, sym_code(d, p + 'dow_p', 1, 7)))
    raise AssertionError(kind)


CAL_KINDS = ('date', 'wnd')


def draw_period(d, kind, date, p):
    if kind == 'calendar':
        n = d.index(3, p + 'cal_n')
        return ('calendar', [draw_entry(d, CAL_KINDS[k], date, '%scal%d_' % (p, k)) for k in range(n)])
    return ('entry', draw_entry(d, kind, date, p))


def draw_eff(d, eff, date):
    y, m, day, dow = date
    lo, hi = near_days(day, R.month_len(y + 1900, m))
    if eff == 'wide':
        return WIDE
    start = (y, m, d.int(lo, hi, 'eff_from_day'), 255)
    end = (y, m, d.int(lo, hi, 'eff_to_day'), 255)
    if eff == 'days':
        return (start, end)
    if eff == 'open-start':
        return (R.UNSPECIFIED, end)
    if eff == 'open-end':
        return (start, R.UNSPECIFIED)
    if eff == 'open-both':
        return (R.UNSPECIFIED, R.UNSPECIFIED)
    raise AssertionError(eff)


def draw_priorities(d, mode, n):
    if mode == 'sym':
        return [d.int(1, 16, 'prio%d' % i) for i in range(n)]
    if isinstance(mode, (list, tuple)) and mode[0] == 'near':
        # first one anywhere in mode[1]..mode[2], each further one within one step of its predecessor
        out = [d.int(mode[1], mode[2], 'prio0')]
        for i in range(1, n):
            p = out[-1] + d.int(-1, 1, 'prio%d_step' % i)
            d.assume(1 <= p <= 16)
            out.append(p)
        return out
    if isinstance(mode, (list, tuple)):
        if n == 0:
            return []
        return list(d.pick([tuple(x) for x in mode], 'prios'))
    raise AssertionError(mode)


def draw_config(d, date, exc, nweek, eff, prio, res):
    prios = draw_priorities(d, prio, len(exc))
    cfg = dict(eff=draw_eff(d, eff, date), exceptions=[], weekly=None, default=V_DEFAULT)
    for i, (kind, ntv) in enumerate(exc):
        p = 'x%d_' % i
        cfg['exceptions'].append(dict(period=draw_period(d, kind, date, p), priority=prios[i],
                                      tvs=draw_tvs(d, ntv, 100 * (i + 1), p + 'tv', res)))
    if nweek is not None:
        cfg['weekly'] = {}
        for w in range(1, 8):
            if w == date[3]:
                cfg['weekly'][w] = draw_tvs(d, nweek, 10, 'wk_tv', res)
            else:
                # the other weekdays carry a marker: picking the wrong element shows
                cfg['weekly'][w] = [((0, 0, 0, 0), 50 + w)]
    return cfg


def real_tvs(tvs):
    return [TimeValue(time=t, value=Null() if v is None else Integer(v)) for t, v in tvs]


def real_entry(entry):
    if entry[0] == 'date':
        return CalendarEntry(date=entry[1])
    if entry[0] == 'range':
        return CalendarEntry(dateRange=DateRange(startDate=entry[1], endDate=entry[2]))
    return CalendarEntry(weekNDay=bytes(entry[1]))


def build_schedule(cfg):
    """the configuration as real bacpypes objects; -> (schedule object, application or None)"""
    app = None
    specials = []
    ncal = 0
    for e in cfg['exceptions']:
        if e['period'][0] == 'calendar':
            if app is None:
                app = Application(LocalDeviceObject(objectName='device', objectIdentifier=('device', 1),
                                                    vendorIdentifier=999))
            ncal += 1
            app.add_object(CalendarObject(objectIdentifier=('calendar', ncal), objectName='calendar %d' % ncal,
                                          presentValue=False,
                                          dateList=ListOf(CalendarEntry)([real_entry(x) for x in e['period'][1]])))
            period = SpecialEventPeriod(calendarReference=('calendar', ncal))
        else:
            period = SpecialEventPeriod(calendarEntry=real_entry(e['period'][1]))
        specials.append(SpecialEvent(period=period, listOfTimeValues=real_tvs(e['tvs']),
                                     eventPriority=e['priority']))
    kw = {}
    if cfg['weekly'] is not None:
        kw['weeklySchedule'] = ArrayOf(DailySchedule)(
            [DailySchedule(daySchedule=real_tvs(cfg['weekly'][w])) for w in range(1, 8)])
    so = S.LocalScheduleObject(objectIdentifier=('schedule', 1), objectName='schedule 1',
                               presentValue=Integer(V_INITIAL),
                               effectivePeriod=DateRange(startDate=cfg['eff'][0], endDate=cfg['eff'][1]),
                               exceptionSchedule=ArrayOf(SpecialEvent)(specials),
                               scheduleDefault=Integer(cfg['default']), **kw)
    if app is not None:
        app.add_object(so)
    return so, app


def plain(x):
    """Atomic -> its value, Date/Time -> tuple (whatever public shape the result has)"""
    return getattr(x, 'value', x)


EVAL_BOUNDS = ("one schedule per path inside the instance's shape: exc = exception entries as (period kind, number "
               "of time-values); period content symbolic around the evaluated day (date / wnd: day-of-week octet over "
               "{1..7, FF} of a date pattern / weekNDay; dow: date pattern on this or the neighbouring day of week; any: FF FF FF "
               "FF; date range: both limits within one day of it; calendar reference: calendar object "
               "with 0..2 such entries); event priority per `prio` (sym: each symbolic 1..16; (near, a, b): first symbolic "
               "a..b, next within one step of it; list of tuples: picked from it); every time-value: symbolic time per `res` (hm: hour 0..23 and minute 0..59; h: hour "
               "0..23 on the hour), strictly increasing inside a list, value distinct or NULL (symbolic); weekly list of the day: nweek entries alike "
               "(other weekdays carry a marker entry); effective period per `eff` (wide: 1900-01-01..2154-12-31 as in the "
               "repository's tests; days: both limits symbolic within one day of the evaluated day; open-*: limit(s) "
               "unspecified); evaluated on the concrete day(s) `days` at a symbolic time (same `res`); no-staleness per "
               "`stale`: instant = a second symbolic time in [now, reported next transition); breakpoints = every entry time of "
               "the day's lists that falls strictly between now and the reported next transition")
EVAL_OUTSIDE = ("more exceptions / time-values than the shape; seconds and hundredths other than 0; lists not in "
                "increasing time order or with equal times; the value the schedule shows when two exceptions in force on "
                "the day share one priority (not decided by the statement: only no-staleness and progress are checked "
                "there); what eval returns outside the effective period (nothing prescribed)")


@meta(bounds=EVAL_BOUNDS, outside=EVAL_OUTSIDE,
      stubs=["World: fresh TaskManager / deferred queue per path (the interpreter registers itself on creation; "
             "the loop is not run here)"],
      assumes=["time-value lists are in strictly increasing time order"])
def eval_ref(d, days, exc, nweek, eff='wide', prio='sym', res='hm', stale='instant'):
    World(0)
    date = DAYS[d.pick(days, 'day')]
    cfg = draw_config(d, date, exc, nweek, eff, prio, res)
    now = draw_time(d, 'now_', res)
    so, app = build_schedule(cfg)
    d.note(date=date, now=now)

    out = so._task.eval(date, now)
    status, want, src = T.evaluate(cfg, date, now)
    if status == T.INACTIVE:
        # outside the effective period nothing is prescribed (eval documents None)
        d.reach()
        return
    if out is None:
        sig = range_sig(date, cfg['eff'][0], cfg['eff'][1])
        oe = sig['start_unspecified'] or sig['end_unspecified']
        d.flag(True, "date-range-open-ended" if oe else "eval-inactive-inside-period",
               where="effectivePeriod", **sig)
        d.reach()
        return
    got, nxt = plain(out[0]), plain(out[1])
    if status == T.OK:
        d.flag(got != want, "eval-value", date=date, now=now, got=got, want=want, source=src)
    # the timer armed at the reported transition must lie ahead, within the day
    ahead = T.tkey(now) < T.tkey(nxt) <= T.tkey(T.END_OF_DAY)
    d.flag(not ahead, "eval-next-transition-not-ahead", date=date, now=now, next=nxt)
    if ahead and stale == 'instant':
        # no staleness: any instant before the reported transition evaluates to the same value
        t2 = draw_time(d, 'then_', res)
        d.assume(T.tkey(now) <= T.tkey(t2))
        d.assume(T.tkey(t2) < T.tkey(nxt))
        out2 = so._task.eval(date, t2)
        got2 = None if out2 is None else plain(out2[0])
        d.flag(got2 != got, "stale-window", tie=(status == T.TIE), date=date, now=now, value=got,
               next=nxt, then=t2, value_then=got2)
    elif ahead:
        # the same at the only instants where the value can change: the entry times of the lists
        # that matter that day (the value is a step function of the time of day; that the real
        # one has no other steps follows from eval-value holding at every `now`)
        for t2 in T.all_times(cfg, date):
            if T.tkey(now) < T.tkey(t2) and T.tkey(t2) < T.tkey(nxt):
                out2 = so._task.eval(date, t2)
                got2 = None if out2 is None else plain(out2[0])
                d.flag(got2 != got, "stale-window", tie=(status == T.TIE), date=date, now=now, value=got,
                       next=nxt, then=t2, value_then=got2)
    d.reach()


# ====================================================================== the schedule on its own timer
class _TimeShim:
    """stands in for the `time` module inside bacpypes.primitivedata while a path runs
    symbolically (Date.now / Time.now call time.localtime, a C function)"""
    candidates = None

    def localtime(self, secs=None):
        return C.localtime_utc(secs, self.candidates)

    def mktime(self, tup):
        return C.mktime_utc(tup)

    def __getattr__(self, name):
        return getattr(_real_time, name)


_SHIM = _TimeShim()


def install_clock(d, candidates):
    """symbolic run: integer UTC model of localtime/mktime; plain replay: the C functions"""
    if d.symbolic:
        _SHIM.candidates = candidates
        PD.time = _SHIM
        S._mktime = C.mktime_utc
    else:
        PD.time = _real_time
        S._mktime = _real_time.mktime


def draw_second_of_day(d, res, p):
    if res == 'h':
        return 3600 * d.int(0, 23, p + 'hour')
    if res == 'm':
        return 12 * 3600 + 60 * d.int(0, 59, p + 'minute')
    if res == 'hm':
        return 60 * d.int(0, 1439, p + 'minute')
    if res == 's':
        return d.int(0, 86399, p + 'second')
    raise AssertionError(res)


# first day of the window: leap -> Wed 2024-02-28, Thu 02-29, Fri 03-01, ... (month end in a leap
# year); newyear -> Sat 2023-12-30, Sun 12-31, Mon 2024-01-01, ... (year end, weekly index 7 -> 1)
BASES = {'leap': (124, 2, 28, 3), 'newyear': (123, 12, 30, 6)}
MAX_LOOPS = 400
FAR_PAST = (0, 1, 1, 1)
FAR_FUTURE = (254, 12, 31, 2)

RUN_BOUNDS = ("window of days starting at `base` (leap: 2024-02-28, newyear: 2023-12-30); start instant symbolic: "
              "window day start_days[0]..start_days[1], time of day per `res` (h: any full hour; m: any minute of the hour "
              "after noon; hm: any minute of the day; s: any second of the day); probe instant symbolic alike, 0..span days "
              "later, not before the start; entry times of the schedule in the same resolution (s: minutes); effective period per `edge` relative to the window "
              "(none: 1900..2154; enter: begins on window day 1; exit: ends with window day 1; both: exactly window days 1..2); "
              "weekly schedule: one entry per weekday at a symbolic time of day (own time and value per weekday); one exception "
              "(priority 8) on window day 1: a value from a symbolic time until relinquished at a later symbolic time")
RUN_OUTSIDE = ("longer runs; more entries; reconfiguration while running; DST / time zones other than UTC; what the "
               "present value is while the clock is outside the effective period (nothing prescribed)")


@meta(bounds=RUN_BOUNDS, outside=RUN_OUTSIDE,
      stubs=["World: real core.run / TaskManager on a virtual clock (task._time, asyncore.loop, trigger pipe), fresh "
             "singletons per path",
             "time.localtime / time.mktime as seen by bacpypes.primitivedata and bacpypes.local.schedule -> integer "
             "UTC model vf/ref/C20_clock.py while symbolic (checked against the C functions on import; plain replay "
             "runs the C functions); TZ=UTC"],
      assumes=["the clock reads integer seconds", "processing takes no time"])
def sched_run(d, base, edge, res, start_days, span):
    B = BASES[base]
    b0 = R.days_from_civil(B[0] + 1900, B[1], B[2])
    ndays = start_days[1] + span + 3
    dates = [R.date_add(B, k) for k in range(ndays)]
    candidates = [b0 + k for k in range(ndays)]
    day_i = d.int(start_days[0], start_days[1], 'start_day')
    t0 = (b0 + day_i) * C.DAY + draw_second_of_day(d, res, 'start_')
    day_j = day_i + d.int(0, span, 'probe_days_later')
    probe = (b0 + day_j) * C.DAY + draw_second_of_day(d, res, 'probe_')
    d.assume(t0 <= probe)
    tres = {'h': 'h', 'm': 'm'}.get(res, 'hm')

    # ---- configuration
    if edge == 'none':
        eff = (FAR_PAST, FAR_FUTURE)
    elif edge == 'enter':
        eff = (dates[1][:3] + (255,), FAR_FUTURE)
    elif edge == 'exit':
        eff = (FAR_PAST, dates[1][:3] + (255,))
    elif edge == 'both':
        eff = (dates[1][:3] + (255,), dates[2][:3] + (255,))
    else:
        raise AssertionError(edge)
    weekly = {}
    visited = [dt[3] for dt in dates[:ndays - 2]]
    for w in range(1, 8):
        if w in visited:
            weekly[w] = [(draw_time(d, 'wk%d_' % w, tres), 10 + w)]
        else:
            weekly[w] = [((0, 0, 0, 0), 50 + w)]
    x_on = draw_time(d, 'x_on_', tres)
    x_off = draw_time(d, 'x_off_', tres)
    d.assume(T.tkey(x_on) < T.tkey(x_off))
    cfg = dict(eff=eff, weekly=weekly, default=V_DEFAULT,
               exceptions=[dict(period=('entry', ('date', dates[1][:3] + (255,))), priority=8,
                                tvs=[(x_on, 101), (x_off, None)])])

    # ---- run the real object on its own timer
    install_clock(d, candidates)
    w = World(t0)
    so, app = build_schedule(cfg)
    # a correct interpreter wakes a handful of times per day; a timer re-armed at or before
    # "now" would spin without the clock moving: the loop is cut and reported
    w.run(until=probe, max_loops=MAX_LOOPS)

    # ---- oracle
    day0, _ = C.split_days(t0, candidates)
    dayp, sod = C.split_days(probe, candidates)
    date0, datep = dates[day0 - b0], dates[dayp - b0]
    nowp = (sod // 3600, (sod % 3600) // 60, sod % 60, 0)
    d.note(start=t0, probe=probe, date_start=date0, date_probe=datep, time_probe=nowp)
    started_inside = T.active(cfg, date0)
    status, want, src = T.evaluate(cfg, datep, nowp)
    got = plain(so.presentValue)
    if status == T.OK and got != want:
        d.flag(True, "present-value" if started_inside else "schedule-stops-at-period-edge",
               edge=edge, started_inside=started_inside, date_start=date0, date_probe=datep, time_probe=nowp,
               got=got, want=want, source=src)
    d.flag(w.loops > MAX_LOOPS, "timer-livelock", edge=edge, clock=w.clock, probe=probe)
    # keeps running: nothing raised inside the event loop (it swallows and logs exceptions)
    all_inside = started_inside and status != T.INACTIVE
    for logger, exc in d.errors_logged():
        d.flag(True, "eval-none-outside-period" if (exc == 'TypeError' and not all_inside) else "interpreter-error-logged",
               edge=edge, logger=logger, exc=exc, started_inside=started_inside,
               probe_inside=(status != T.INACTIVE))
    d.reach()


def _ev(out, budget, **kw):
    kw.setdefault('days', ['leapday'])
    out.append(Inst(eval_ref, kw, budget=budget))


@meta(bounds="datetime_to_time for a symbolic date (year 1970..2154, month, day 1..28) and time of day: the broken-down time it hands "
             "to the C library's mktime (captured by a stand-in) is that local date and time with the daylight-saving field -1, "
             "i.e. 'let the library decide' - any other value makes every transition of a schedule an hour late or early "
             "during half of the year in a zone that observes daylight saving time (the other harnesses run in UTC, where the "
             "field makes no difference)",
      outside="what the C library's mktime does with the tuple",
      stubs=["bacpypes.local.schedule._mktime -> capture"], assumes=[])
def mktime_args(d):
    import bacpypes.local.schedule as S
    year = d.int(70, 254, 'year-1900')
    month = d.int(1, 12, 'month')
    day = d.int(1, 28, 'day')
    hh, mm, ss = d.int(0, 23, 'hour'), d.int(0, 59, 'minute'), d.int(0, 59, 'second')
    seen = []
    real = S._mktime
    S._mktime = lambda t: seen.append(tuple(t)) or 0.0
    try:
        S.datetime_to_time((year, month, day, 255 - 255 + 1), (hh, mm, ss, 0))
    finally:
        S._mktime = real
    if len(seen) != 1 or len(seen[0]) != 9:
        raise Violation("mktime-call", n=len(seen))
    t = seen[0]
    if tuple(t[:6]) != (year + 1900, month, day, hh, mm, ss):
        raise Violation("mktime-fields", got=list(t[:6]), want=[year + 1900, month, day, hh, mm, ss])
    if t[8] != -1:
        raise Violation("mktime-daylight-saving-field", got=t[8], want=-1)
    d.reach()


def instances(tier):
    q = tier == "quick"
    out = []
    out.append(Inst(mktime_args, {}, budget=60))
    U, SP = 'unspecified', 'specific'
    A = ['leapday', 'sunday', 'monday']
    P3 = [(1, 16), (16, 1), (8, 8)]
    if q:
        B = 90
        # ---- matchers
        for ms in [(1, 2), (3, 12)]:
            out.append(Inst(match_date, dict(months=ms), budget=B))
        for ms in [(1, 2), (3, 5), (6, 9), (10, 12)]:
            out.append(Inst(match_weeknday, dict(months=ms), budget=B))
        out.append(Inst(match_date_range, dict(start=U, end=U), budget=B))
        out.append(Inst(match_date_range, dict(start=SP, end=U, dow='any'), budget=B))
        out.append(Inst(match_date_range, dict(start=U, end=SP, dow='any'), budget=B))
        out.append(Inst(match_date_range, dict(start=SP, end=SP, dow='right'), budget=B))
        out.append(Inst(calendar_entry, dict(choice='date', maxday=28), budget=B))
        out.append(Inst(calendar_entry, dict(choice='dateRange', maxday=28), budget=B))
        out.append(Inst(calendar_entry, dict(choice='weekNDay', maxday=28, months=(3, 4)), budget=B))
        # ---- eval: weekly list alone, on all three days
        _ev(out, B, days=A, exc=[], nweek=None)
        _ev(out, B, days=A, exc=[], nweek=2)
        # one exception of each period kind, second instant free
        for kind in ('date', 'range', 'wnd', 'calendar'):
            _ev(out, B, exc=[(kind, 1)], nweek=1, prio=[(8,)], res='hm' if kind == 'date' else 'h')
        # every priority
        _ev(out, B, exc=[('dow', 1)], nweek=0, prio='sym', res='h', stale='breakpoints')
        # two entries per list
        _ev(out, B, exc=[('dow', 2)], nweek=2, prio=[(8,)], res='h', stale='breakpoints')
        # two exceptions: priority order both ways and a tie
        for pp in P3 + [(15, 16)]:
            _ev(out, B, exc=[('dow', 1), ('dow', 1)], nweek=1, prio=[pp], res='h', stale='breakpoints')
        for pp in P3[1:]:
            _ev(out, B, exc=[('dow', 2), ('dow', 2)], nweek=0, prio=[pp], res='h', stale='breakpoints')
        # an exception in force without any entry
        _ev(out, B, exc=[('dow', 0), ('dow', 1)], nweek=1, prio=P3[:2], res='h')
        # effective period: both limits around the day, open-ended
        for eff in ('days', 'open-start', 'open-end', 'open-both'):
            _ev(out, B, exc=[], nweek=1, eff=eff)
        # ---- the object on its own timer
        for edge in ('none', 'enter', 'exit'):
            out.append(Inst(sched_run, dict(base='leap', edge=edge, res='h', start_days=(0, 2), span=2), budget=B))
        out.append(Inst(sched_run, dict(base='newyear', edge='none', res='h', start_days=(1, 1), span=1), budget=B))
        out.append(Inst(sched_run, dict(base='leap', edge='none', res='m', start_days=(0, 2), span=2), budget=B))
        return out

    # ------------------------------------------------------------------ thorough
    B = 800
    for ms in [(1, 2), (3, 12)]:
        out.append(Inst(match_date, dict(months=ms), budget=B))
        out.append(Inst(calendar_entry, dict(choice='date', months=ms), budget=B))
    for ms in [(1, 2), (3, 5), (6, 9), (10, 12)]:
        out.append(Inst(match_weeknday, dict(months=ms), budget=B))
        out.append(Inst(calendar_entry, dict(choice='weekNDay', months=ms), budget=B))
    for fn, kw in ((match_date_range, {}), (calendar_entry, dict(choice='dateRange'))):
        out.append(Inst(fn, dict(kw, start=U, end=U), budget=B))
        for dow in ('right', 'any'):
            out.append(Inst(fn, dict(kw, start=SP, end=U, dow=dow), budget=B))
            out.append(Inst(fn, dict(kw, start=U, end=SP, dow=dow), budget=B))
            out.append(Inst(fn, dict(kw, start=SP, end=SP, dow=dow), budget=B))
    # weekly list alone: absent, 0..3 entries, all three days, second instant free
    for nweek in (None, 0, 1, 2, 3):
        _ev(out, B, days=A, exc=[], nweek=nweek)
    # one exception of each period kind with two entries
    for kind in ('date', 'range', 'wnd', 'calendar'):
        _ev(out, B, exc=[(kind, 2)], nweek=1, prio=[(8,)], res='h' if kind == 'calendar' else 'hm')
    # every priority; every pair of priorities
    _ev(out, B, exc=[('dow', 1)], nweek=1, prio='sym')
    _ev(out, B, exc=[('any', 1), ('any', 1)], nweek=0, prio='sym', res='h', stale='breakpoints')
    for lo in (1, 5, 9, 13):
        _ev(out, B, exc=[('dow', 1), ('dow', 1)], nweek=1, prio=('near', lo, lo + 3), res='h', stale='breakpoints')
    for pp in P3:
        _ev(out, B, exc=[('dow', 1), ('dow', 1)], nweek=1, prio=[pp])
    _ev(out, B, exc=[('dow', 0), ('dow', 1)], nweek=1, prio=P3[:2])
    # three entries per list
    _ev(out, B, exc=[('dow', 3)], nweek=3, prio=[(8,)], res='h', stale='breakpoints')
    for pp in P3 + [(15, 16)]:
        _ev(out, B, exc=[('dow', 1), ('dow', 1)], nweek=1, prio=[pp], stale='breakpoints')
        _ev(out, B, exc=[('dow', 2), ('dow', 2)], nweek=1, prio=[pp], res='h', stale='breakpoints')
    # three exceptions
    for pp in [(1, 2, 3), (3, 2, 1), (2, 3, 1), (5, 5, 5), (1, 16, 16), (16, 1, 1)]:
        _ev(out, B, exc=[('dow', 1), ('dow', 1), ('dow', 1)], nweek=1, prio=[pp], res='h', stale='breakpoints')
    for eff in ('days', 'open-start', 'open-end', 'open-both'):
        _ev(out, B, days=A, exc=[('dow', 1)], nweek=1, eff=eff, prio=[(8,)])
    # the object on its own timer
    for base in ('leap', 'newyear'):
        for edge in ('none', 'enter', 'exit', 'both'):
            out.append(Inst(sched_run, dict(base=base, edge=edge, res='h', start_days=(0, 2), span=2), budget=B))
            out.append(Inst(sched_run, dict(base=base, edge=edge, res='m', start_days=(0, 2), span=2), budget=B))
    for edge in ('none', 'enter', 'exit', 'both'):
        for day in (0, 1, 2):
            out.append(Inst(sched_run, dict(base='leap', edge=edge, res='hm', start_days=(day, day), span=1), budget=B))
    out.append(Inst(sched_run, dict(base='leap', edge='none', res='s', start_days=(1, 1), span=1), budget=B))
    return out
