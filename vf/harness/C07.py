"""C07 - APDU fixed headers carry every field of all eight PDU types faithfully."""
from ..api import Inst, Violation, meta

from bacpypes.pdu import PDU, PDUData, Address
from bacpypes.errors import DecodingError
from bacpypes import apdu as A

TYPES = [A.ConfirmedRequestPDU, A.UnconfirmedRequestPDU, A.SimpleAckPDU, A.ComplexAckPDU,
         A.SegmentAckPDU, A.ErrorPDU, A.RejectPDU, A.AbortPDU]
CARRIES_PAYLOAD = {0: True, 1: True, 2: False, 3: True, 4: False, 5: True, 6: False, 7: False}
FIELDS = ('apduType', 'apduSeg', 'apduMor', 'apduSA', 'apduSrv', 'apduNak', 'apduSeq', 'apduWin',
          'apduMaxSegs', 'apduMaxResp', 'apduService', 'apduInvokeID', 'apduAbortRejectReason')


def ref_header(t, f):
    """clause 20.1 bit layout, written from the standard (independent of apdu.py)"""
    b = lambda x: 1 if x else 0
    if t == 0:
        o = [0x00 | b(f['seg']) << 3 | b(f['mor']) << 2 | b(f['sa']) << 1,
             f['maxsegs'] * 16 + f['maxresp'], f['invoke']]
        if f['seg']:
            o += [f['seq'], f['win']]
        return o + [f['service']]
    if t == 1:
        return [0x10, f['service']]
    if t == 2:
        return [0x20, f['invoke'], f['service']]
    if t == 3:
        o = [0x30 | b(f['seg']) << 3 | b(f['mor']) << 2, f['invoke']]
        if f['seg']:
            o += [f['seq'], f['win']]
        return o + [f['service']]
    if t == 4:
        return [0x40 | b(f['nak']) << 1 | b(f['srv']), f['invoke'], f['seq'], f['win']]
    if t == 5:
        return [0x50, f['invoke'], f['service']]
    if t == 6:
        return [0x60, f['invoke'], f['reason']]
    if t == 7:
        return [0x70 | b(f['srv']), f['invoke'], f['reason']]
    raise AssertionError


def draw_fields(d):
    return dict(seg=d.bool('seg'), mor=d.bool('mor'), sa=d.bool('sa'), srv=d.bool('srv'),
                nak=d.bool('nak'), maxsegs=d.int(0, 7, 'maxsegs'), maxresp=d.int(0, 15, 'maxresp'),
                invoke=d.int(0, 255, 'invoke'), seq=d.int(0, 255, 'seq'), win=d.int(0, 255, 'win'),
                service=d.int(0, 255, 'service'), reason=d.int(0, 255, 'reason'))


def build(t, f, payload):
    k = TYPES[t]
    if t in (0, 1):
        x = k(f['service'])
    elif t in (2, 3, 5):
        x = k(f['service'], f['invoke'])
    elif t == 4:
        x = k(f['nak'], f['srv'], f['invoke'], f['seq'], f['win'])
    elif t == 6:
        x = k(f['invoke'], f['reason'])
    else:
        x = k(f['srv'], f['invoke'], f['reason'])
    if t == 0:
        x.apduSeg, x.apduMor, x.apduSA = f['seg'], f['mor'], f['sa']
        x.apduMaxSegs, x.apduMaxResp, x.apduInvokeID = f['maxsegs'], f['maxresp'], f['invoke']
        x.apduSeq, x.apduWin = f['seq'], f['win']
    if t == 3:
        x.apduSeg, x.apduMor, x.apduSeq, x.apduWin = f['seg'], f['mor'], f['seq'], f['win']
    x.pduData = bytearray(payload)
    return x


# which decoded attribute must equal which field, per type
EXPECT = {
    0: dict(apduSeg='seg', apduMor='mor', apduSA='sa', apduMaxSegs='maxsegs', apduMaxResp='maxresp',
            apduInvokeID='invoke', apduService='service'),
    1: dict(apduService='service'),
    2: dict(apduInvokeID='invoke', apduService='service'),
    3: dict(apduSeg='seg', apduMor='mor', apduInvokeID='invoke', apduService='service'),
    4: dict(apduNak='nak', apduSrv='srv', apduInvokeID='invoke', apduSeq='seq', apduWin='win'),
    5: dict(apduInvokeID='invoke', apduService='service'),
    6: dict(apduInvokeID='invoke', apduAbortRejectReason='reason'),
    7: dict(apduSrv='srv', apduInvokeID='invoke', apduAbortRejectReason='reason'),
}


@meta(bounds="one instance per PDU type; every flag, max-segments code 0..7, max-response code 0..15, "
             "invoke ID / sequence / window / service / reason 0..255 symbolic; payload 0..paylen symbolic octets "
             "(types that carry one)",
      outside="payloads longer than paylen octets (the payload is copied, not interpreted)")
def apci_rt(d, t, paylen):
    f = draw_fields(d)
    payload = d.bytes(0, paylen if CARRIES_PAYLOAD[t] else 0, 'payload')
    src = Address(5)
    x = build(t, f, payload)
    x.pduSource = src
    # the path the stack uses: service class -> APDU -> PDU octets
    apdu = A.APDU()
    x.encode(apdu)
    pdu = PDU()
    apdu.encode(pdu)
    octets = bytes(pdu.pduData)
    want = bytes(ref_header(t, f)) + bytes(payload)
    if octets != want:
        raise Violation("layout", type=t, got=octets, want=want)
    if pdu.pduSource is not src:
        raise Violation("pci-lost", type=t)
    # decode restores the fields and leaves the payload untouched
    y = A.APDU()
    y.decode(PDU(octets, source=src))
    if y.apduType != t:
        raise Violation("type-restored", type=t, got=y.apduType)
    for attr, key in EXPECT[t].items():
        got = getattr(y, attr)
        if got != f[key] or (isinstance(f[key], bool) and not isinstance(got, bool)):
            raise Violation("field-restored", type=t, attr=attr, got=got, want=f[key])
    if (t in (0, 3)) and f['seg']:
        if y.apduSeq != f['seq'] or y.apduWin != f['win']:
            raise Violation("field-restored", type=t, attr="seq/win")
    if bytes(y.pduData) != bytes(payload):
        raise Violation("payload", type=t, got=bytes(y.pduData), want=bytes(payload))
    # and up into the specific class
    z = TYPES[t]()
    z.decode(y)
    for attr, key in EXPECT[t].items():
        if getattr(z, attr) != f[key]:
            raise Violation("field-restored-class", type=t, attr=attr)
    if bytes(z.pduData) != bytes(payload):
        raise Violation("payload-class", type=t)
    d.reach()


def ref_decode(data):
    """reference parse of an octet string into (type, fields, payload) or None = malformed"""
    if len(data) < 1:
        return None
    t = data[0] >> 4
    need = {0: 4, 1: 2, 2: 3, 3: 3, 4: 4, 5: 3, 6: 3, 7: 3}.get(t)
    if need is None:
        return None
    seg = t in (0, 3) and (data[0] & 0x08) != 0
    if seg:
        need += 2
    if len(data) < need:
        return None
    return t, need


@meta(bounds="every octet string of length 0..n (content and length symbolic)",
      outside="octet strings longer than n")
def apci_decode_total(d, n):
    data = d.bytes(0, n, 'octets')
    y = A.APDU()
    try:
        y.decode(PDU(data))
    except DecodingError:
        if ref_decode(data) is not None:
            raise Violation("refused-wellformed", data=data)
        d.reach()
        return
    r = ref_decode(data)
    if r is None:
        raise Violation("accepted-malformed", data=data)
    t, hdrlen = r
    if y.apduType != t:
        raise Violation("type", data=data)
    if bytes(y.pduData) != bytes(data[hdrlen:]):
        raise Violation("payload-split", data=data, got=bytes(y.pduData))
    # fixed point: re-encoding the decoded header and decoding again gives the same fields
    p2 = PDU()
    y.encode(p2)
    y2 = A.APDU()
    y2.decode(PDU(p2.pduData))
    for attr in FIELDS:
        if getattr(y, attr) != getattr(y2, attr):
            raise Violation("not-fixed-point", data=data, attr=attr)
    if bytes(y.pduData) != bytes(y2.pduData):
        raise Violation("not-fixed-point", data=data, attr="pduData")
    # every bit the standard defines survives re-encoding
    o2 = bytes(p2.pduData)
    mask0 = {0: 0xFE, 1: 0xF0, 2: 0xF0, 3: 0xFC, 4: 0xF3, 5: 0xF0, 6: 0xF0, 7: 0xF1}[t]
    if len(o2) != len(data) or (o2[0] & mask0) != (data[0] & mask0):
        raise Violation("reencode-first-octet", data=data, got=o2)
    if t == 0:
        if (o2[1] & 0x7F) != (data[1] & 0x7F) or o2[2:] != bytes(data[2:]):
            raise Violation("reencode", data=data, got=o2)
    elif o2[1:] != bytes(data[1:]):
        raise Violation("reencode", data=data, got=o2)
    d.reach()


SEGS = [None, 2, 4, 8, 16, 32, 64, None]
LENS = [50, 128, 206, 480, 1024, 1476]


@meta(bounds="capability n symbolic over 0..hi; the 8 / 16 code points symbolic",
      outside="capabilities above hi (smtk lemma `tables_lemma` covers all integers)")
def tables(d, hi):
    n = d.int(0, hi, 'n')
    # max segments: rounds down, never up; 0 = unspecified; > 64 = code 7
    try:
        c = A.encode_max_segments_accepted(n)
    except ValueError:
        if n != 1:
            raise Violation("segs-refused", n=n)
        c = None
    if c is not None:
        if not (0 <= c <= 7):
            raise Violation("segs-code-range", n=n, c=c)
        v = A.decode_max_segments_accepted(c)
        if n == 0:
            if c != 0 or v is not None:
                raise Violation("segs-unspecified", n=n, c=c)
        elif n > 64:
            if c != 7:
                raise Violation("segs-more-than-64", n=n, c=c)
        else:
            best = max(t for t in (2, 4, 8, 16, 32, 64) if t <= n) if n >= 2 else None
            if best is None or v != best:
                raise Violation("segs-round-down", n=n, c=c, v=v)
    # max APDU length
    try:
        c = A.encode_max_apdu_length_accepted(n)
    except ValueError:
        if n >= 50:
            raise Violation("len-refused", n=n)
        c = None
    if c is not None:
        if n < 50:
            raise Violation("len-accepted-below-50", n=n, c=c)
        v = A.decode_max_apdu_length_accepted(c)
        best = max(t for t in LENS if t <= n)
        if v != best:
            raise Violation("len-round-down", n=n, c=c, v=v)
    d.reach()


@meta(bounds="all 16 max-APDU-length code points and all 8 max-segments code points (symbolic)", outside="nothing")
def table_codes(d):
    k = d.int(0, 15, 'code')
    try:
        v = A.decode_max_apdu_length_accepted(k)
    except ValueError:
        if k < 6:
            raise Violation("len-code-refused", k=k)
        v = None
    if v is not None and (k >= 6 or v != LENS[k]):
        raise Violation("len-code", k=k, v=v)
    k = d.int(0, 7, 'scode')
    v = A.decode_max_segments_accepted(k)
    if v != SEGS[k]:
        raise Violation("segs-code", k=k, v=v)
    if v is not None and A.encode_max_segments_accepted(v) != k:
        raise Violation("segs-code-rt", k=k)
    d.reach()


def instances(tier):
    q = tier == "quick"
    out = []
    # the whole of C07 is cheap: the quick tier runs the bounds the thorough tier used to have, the thorough tier goes further
    for t in range(8):
        out.append(Inst(apci_rt, dict(t=t, paylen=4 if q else 8), budget=120 if q else 600))
    out.append(Inst(apci_decode_total, dict(n=8 if q else 10), budget=300 if q else 1800))
    out.append(Inst(tables, dict(hi=70000 if q else 1000000), budget=120 if q else 600))
    out.append(Inst(table_codes, {}, budget=60))
    return out
