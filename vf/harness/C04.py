"""C04 - a confirmed request ends in exactly one outcome, in bounded time, no residue."""
from ..api import Inst, Violation, meta
from ..world import World
from .. import netlab as nl
from ..ref import wire

from bacpypes.apdu import ConfirmedPrivateTransferACK, AbortPDU
from bacpypes.iocb import COMPLETED as IO_COMPLETED, ABORTED as IO_ABORTED

SEG = ["noSegmentation", "segmentedTransmit", "segmentedReceive", "segmentedBoth"]
APDU_TIMEOUT = 3000
SEG_TIMEOUT = 1500
APP_TIMEOUT = 3000


def nsegs(length, size):
    return max(1, -(-length // size))


def time_bound(retries, req_len, resp_len, size):
    """analytic bound (seconds) on the time to the outcome: every (re)transmission of the
    request may itself be segmented with per-window retries, then the peer may use its
    application timeout and send a segmented response with per-window retries"""
    a, s = APDU_TIMEOUT / 1000.0, SEG_TIMEOUT / 1000.0
    nreq, nresp = nsegs(req_len + 16, size), nsegs(resp_len + 16, size)
    per_try = a + (nreq + 1) * (retries + 1) * s
    return (retries + 1) * per_try + APP_TIMEOUT / 1000.0 + (nresp + 1) * (retries + 1) * s


def draw_faults(d, nf, kinds, horizon):
    faults = []
    for k in range(nf):
        idx = d.int(0, horizon, 'fault%d_at' % k)
        kind = d.pick(kinds, 'fault%d_kind' % k)
        arg = d.pick([1, 2], 'fault%d_hold' % k) if kind in (nl.HOLD, nl.DELAY) else 1
        faults.append(nl.Fault(idx, kind, arg))
    return faults


@meta(bounds="two complete stacks on the fault-injecting virtual LAN; max APDU S both sides; segmentation support, "
             "proposed windows, retry count, IOCB-or-direct fixed per instance; request/response payload length "
             "symbolic inside the instance's window with every octet symbolic; nf faults, each at a symbolic frame "
             "index 0..horizon with kind symbolic in {drop, duplicate, late arrival (reordered behind 1 or 2 younger frames, same instant), delay (behind 1 or 2 younger frames, across timeouts), "
             "silence-from-here-on}; server answers ack / error / reject / abort / nothing (mode fixed per instance)",
      outside="more than nf faults; fault positions beyond frame index `horizon`; max APDU sizes other than S; "
              "threads (IOCB.wait); corrupted (as opposed to lost/duplicated/delayed) frames",
      stubs=["virtual clock (task._time)", "asyncore.loop -> clock advance", "task._Trigger=None", "fresh singletons per path",
             "vlan.Network.process_pdu subclassed with a fault schedule"],
      assumes=["processing takes zero virtual time", "a held (delayed) frame is eventually delivered unless the medium went silent"])
def txn(d, iocb, S, segc, segs, wc, ws, retries, req, resp, nf, kinds, horizon, mode="ack"):
    w = World()
    faults = draw_faults(d, nf, kinds, horizon)
    lan = nl.FaultLAN(faults, world=w)
    cdev = nl.make_device("c", 10, maxApduLengthAccepted=S, segmentationSupported=SEG[segc],
                          numberOfApduRetries=retries, apduTimeout=APDU_TIMEOUT, apduSegmentTimeout=SEG_TIMEOUT)
    sdev = nl.make_device("s", 20, maxApduLengthAccepted=S, segmentationSupported=SEG[segs],
                          numberOfApduRetries=retries, apduTimeout=APDU_TIMEOUT, apduSegmentTimeout=SEG_TIMEOUT)
    client = (nl.IOStack if iocb else nl.AppStack)(cdev, lan, window=wc)
    server = nl.AppStack(sdev, lan, window=ws, app_timeout=APP_TIMEOUT)
    reqp = d.bytes(req[0], req[1], 'req_payload')
    respp = d.bytes(resp[0], resp[1], 'resp_payload')
    server.pt_result = respp
    server.pt_mode = mode
    apdu = nl.private_transfer(server.address, reqp)
    if iocb:
        io = client.submit(apdu)
    else:
        client.request(apdu)
    invoke = apdu.apduInvokeID

    # run to quiescence: nothing scheduled, nothing deferred
    w.run()
    if lan.flush():
        w.run()
    t_end = w.clock

    # ---- exactly one outcome, of a legal kind, for this request
    if iocb:
        outcomes = [(c[1] if c[0] == IO_COMPLETED else c[2], c[3]) for c in io.calls]
        if len(io.calls) == 1 and io.calls[0][0] not in (IO_COMPLETED, IO_ABORTED):
            raise Violation("iocb-state", state=io.calls[0][0])
    else:
        outcomes = list(zip(client.confirmations, client.conf_times))
    if len(outcomes) != 1:
        raise Violation("outcome-count", n=len(outcomes), kinds=[nl.outcome_kind(o[0]) for o in outcomes],
                        fates=lan.fate, mode=mode)
    out, t_out = outcomes[0]
    kind = nl.outcome_kind(out)
    if kind not in ("ack", "error", "reject", "abort"):
        raise Violation("outcome-kind", kind=kind)
    if out.apduInvokeID != invoke:
        raise Violation("outcome-invoke-id", got=out.apduInvokeID, want=invoke)
    # with a loss-free medium the outcome is the one the server chose
    if all(f == "delivered" for f in lan.fate):
        d.flag(mode in ("ack", "error", "reject") and kind != mode and kind != "abort",
               "outcome-mismatch", got=kind, mode=mode)
    if kind == "ack" and isinstance(out, ConfirmedPrivateTransferACK):
        got = nl.payload_of(out, 'resultBlock')
        if got is None or bytes(got) != bytes(respp):
            raise Violation("ack-payload", got=got, want=respp)
    # ---- in bounded time
    bound = time_bound(retries, req[1], resp[1], S)
    if t_out > bound:
        raise Violation("outcome-late", t=t_out, bound=bound, fates=lan.fate)
    # ---- no residue
    rc, rs = nl.residue(client), nl.residue(server)
    if rc or rs:
        raise Violation("residue", client=rc, server=rs, fates=lan.fate, outcome=kind)
    if not w.idle():
        raise Violation("timer-left")
    # ---- and no further frames for it
    n_frames = len(lan.frames)
    w.run(duration=bound)
    if len(lan.frames) != n_frames:
        raise Violation("frames-after-quiescence", extra=len(lan.frames) - n_frames)
    if (len(io.calls) if iocb else len(client.confirmations)) != 1:
        raise Violation("late-second-outcome")
    # (a retransmitted request after the first answer was lost is legitimately served again;
    #  C11 covers duplicates that arrive while the original is still being processed)
    d.note(outcome=kind, t=t_out, frames=n_frames, fates=lan.fate, t_end=t_end)
    d.reach()


ALL_KINDS = [nl.DROP, nl.DUP, nl.HOLD, nl.DELAY, nl.SILENCE]


def label(p):
    return "%s,S%d,seg%d/%d,w%d/%d,r%d,req%s,resp%s,%dx%s,%s%s" % (
        "iocb" if p["iocb"] else "direct", p["S"], p["segc"], p["segs"], p["wc"], p["ws"], p["retries"],
        "-".join(map(str, p["req"])), "-".join(map(str, p["resp"])), p["nf"],
        "".join("DUHSL"[k] for k in p["kinds"]), p["mode"],
        (",first=" + nl.FAULT_NAMES[p["first_kind"]]) if "first_kind" in p else "")


def instances(tier):
    q = tier == "quick"
    out = []
    S = 50
    # a private-transfer body is 10 octets + payload (11 from 5 octets of payload on); S = 50:
    # payload 3 -> unsegmented, 60 -> 2 segments, 100 -> 3 segments, 150 -> 4 segments
    base = dict(S=S, wc=2, ws=2, retries=1, horizon=14, mode="ack")
    both = SEG.index("segmentedBoth")
    if q:
        cfgs = [
            # unsegmented both ways, every single fault
            dict(iocb=False, segc=both, segs=both, req=(3, 3), resp=(3, 3), nf=1, kinds=ALL_KINDS),
            dict(iocb=True, segc=both, segs=both, req=(0, 1), resp=(2, 2), nf=1, kinds=ALL_KINDS),
            # segmented request (2 / 3 segments), unsegmented response
            dict(iocb=False, segc=both, segs=both, req=(60, 60), resp=(2, 2), nf=1, kinds=[nl.DROP, nl.DUP, nl.HOLD, nl.SILENCE]),
            dict(iocb=True, segc=both, segs=both, req=(100, 100), resp=(0, 0), nf=1, kinds=[nl.DROP, nl.DUP]),
            # unsegmented request, segmented response
            dict(iocb=True, segc=both, segs=both, req=(2, 2), resp=(60, 60), nf=1, kinds=ALL_KINDS),
            dict(iocb=False, segc=both, segs=both, req=(0, 0), resp=(100, 100), nf=1, kinds=[nl.DROP, nl.HOLD]),
            # both segmented, window 1 vs 3
            dict(iocb=False, segc=both, segs=both, req=(100, 100), resp=(100, 100), nf=1, kinds=[nl.DROP, nl.DUP], wc=1, ws=3),
            # capability mismatches: must end in an abort, not silence
            dict(iocb=False, segc=0, segs=both, req=(60, 60), resp=(2, 2), nf=0, kinds=ALL_KINDS),
            dict(iocb=True, segc=1, segs=both, req=(2, 2), resp=(60, 60), nf=0, kinds=ALL_KINDS),
            dict(iocb=False, segc=both, segs=0, req=(2, 2), resp=(60, 60), nf=0, kinds=ALL_KINDS),
            # other outcomes
            dict(iocb=False, segc=both, segs=both, req=(2, 2), resp=(0, 0), nf=1, kinds=[nl.DROP, nl.DUP], mode="error"),
            dict(iocb=True, segc=both, segs=both, req=(2, 2), resp=(0, 0), nf=1, kinds=[nl.DROP, nl.DUP], mode="reject"),
            dict(iocb=False, segc=both, segs=both, req=(2, 2), resp=(0, 0), nf=1, kinds=[nl.DROP], mode="abort"),
            dict(iocb=True, segc=both, segs=both, req=(2, 2), resp=(0, 0), nf=0, kinds=[nl.DROP], mode="silent"),
            # retry counts 0 and 3 under total silence from any point on
            dict(iocb=False, segc=both, segs=both, req=(2, 2), resp=(2, 2), nf=1, kinds=[nl.SILENCE], retries=0),
            dict(iocb=True, segc=both, segs=both, req=(2, 2), resp=(2, 2), nf=1, kinds=[nl.SILENCE], retries=3),
        ]
        for c in cfgs:
            p = dict(base)
            p.update(c)
            out.append(Inst(txn, p, budget=80, path_timeout=60, label=label(p)))
    else:
        for iocb in (False, True):
            for (req, resp) in [((0, 4), (3, 3)), ((33, 35), (2, 2)), ((2, 2), (33, 35)), ((60, 60), (2, 2)),
                                ((2, 2), (60, 60)), ((100, 100), (100, 100)), ((150, 150), (140, 140))]:
                for (wc, ws) in [(2, 2), (1, 3), (8, 1), (3, 8)]:
                    p = dict(base, iocb=iocb, segc=both, segs=both, req=req, resp=resp, nf=1, kinds=ALL_KINDS,
                             wc=wc, ws=ws, horizon=22)
                    out.append(Inst(txn, p, budget=500, path_timeout=90, label=label(p)))
        # two faults on the unsegmented and lightly segmented shapes
        for (req, resp) in [((3, 3), (3, 3)), ((60, 60), (2, 2)), ((2, 2), (60, 60))]:
            for k1 in ALL_KINDS:
                p = dict(base, iocb=False, segc=both, segs=both, req=req, resp=resp, nf=2, kinds=ALL_KINDS,
                         horizon=12, first_kind=k1)
                out.append(Inst(txn2, p, budget=900, path_timeout=90, label=label(p)))
        # all 4x4 segmentation-support settings on a shape that needs segmentation both ways
        for segc in range(4):
            for segs in range(4):
                p = dict(base, iocb=bool((segc + segs) % 2), segc=segc, segs=segs, req=(60, 60), resp=(60, 60), nf=1,
                         kinds=[nl.DROP, nl.DUP])
                out.append(Inst(txn, p, budget=300, path_timeout=90, label=label(p)))
        # retries 0..3 x outcome modes
        for retries in range(4):
            for mode in ("ack", "error", "reject", "abort", "silent"):
                p = dict(base, iocb=bool(retries % 2), segc=both, segs=both, req=(2, 2), resp=(2, 2), nf=1, kinds=ALL_KINDS,
                         retries=retries, mode=mode)
                out.append(Inst(txn, p, budget=300, path_timeout=90, label=label(p)))
        # S = 128
        for (req, resp) in [((130, 130), (2, 2)), ((2, 2), (130, 130)), ((260, 260), (260, 260))]:
            p = dict(base, S=128, iocb=False, segc=both, segs=both, req=req, resp=resp, nf=1, kinds=ALL_KINDS, horizon=18)
            out.append(Inst(txn, p, budget=500, path_timeout=90, label=label(p)))
    return out


def txn2(d, first_kind, **p):
    """two faults; the first fault's kind is fixed per instance to split the tree"""
    kinds = p.pop("kinds")
    return _txn_kinds(d, [[first_kind], kinds], **p)


def _txn_kinds(d, kinds_per_fault, **p):
    # same scenario, fault kinds constrained per fault
    orig = draw_faults

    def df(d_, nf, kinds, horizon):
        faults = []
        for k in range(nf):
            idx = d_.int(0, horizon, 'fault%d_at' % k)
            kind = d_.pick(kinds_per_fault[k], 'fault%d_kind' % k)
            arg = d_.pick([1, 2], 'fault%d_hold' % k) if kind in (nl.HOLD, nl.DELAY) else 1
            faults.append(nl.Fault(idx, kind, arg))
        return faults
    globals()['draw_faults'] = df
    try:
        return txn(d, kinds=None, **p)
    finally:
        globals()['draw_faults'] = orig


txn2.meta = txn.meta
