"""C04 - a confirmed request ends in exactly one outcome, in bounded time, no residue."""
from ..api import Inst, Violation, meta
from ..world import World
from .. import netlab as nl
from ..ref import wire

from bacpypes.apdu import ConfirmedPrivateTransferACK, AbortPDU
from bacpypes.iocb import COMPLETED as IO_COMPLETED, ABORTED as IO_ABORTED

SEG = ["noSegmentation", "segmentedTransmit", "segmentedReceive", "segmentedBoth"]
APDU_TIMEOUT = 3000
SEG_TIMEOUT = 1500
APP_TIMEOUT = 3000


def nsegs(length, size):
    return max(1, -(-length // size))


def time_bound(retries, req_len, resp_len, size):
    """analytic bound (seconds) on the time to the outcome: every (re)transmission of the
    request may itself be segmented with per-window retries, then the peer may use its
    application timeout and send a segmented response with per-window retries"""
    a, s = APDU_TIMEOUT / 1000.0, SEG_TIMEOUT / 1000.0
    nreq, nresp = nsegs(req_len + 16, size), nsegs(resp_len + 16, size)
    per_try = a + (nreq + 1) * (retries + 1) * s
    return (retries + 1) * per_try + APP_TIMEOUT / 1000.0 + (nresp + 1) * (retries + 1) * s


def draw_faults(d, nf, kinds, horizon):
    faults = []
    for k in range(nf):
        idx = d.int(0, horizon, 'fault%d_at' % k)
        kind = d.pick(kinds, 'fault%d_kind' % k)
        arg = d.pick([1, 2], 'fault%d_hold' % k) if kind in (nl.HOLD, nl.DELAY) else 1
        faults.append(nl.Fault(idx, kind, arg))
    return faults


@meta(bounds="two complete stacks on the fault-injecting virtual LAN; max APDU S both sides; segmentation support, "
             "proposed windows, retry count, IOCB-or-direct fixed per instance; request/response payload length "
             "symbolic inside the instance's window with every octet symbolic; nf faults, each at a symbolic frame "
             "index 0..horizon with kind symbolic in {drop, duplicate, late arrival (reordered behind 1 or 2 younger frames, same instant), delay (behind 1 or 2 younger frames, across timeouts), "
             "silence-from-here-on}; server answers ack / error / reject / abort / nothing (mode fixed per instance)",
      outside="more than nf faults; fault positions beyond frame index `horizon`; max APDU sizes other than S; "
              "threads (IOCB.wait); corrupted (as opposed to lost/duplicated/delayed) frames",
      stubs=["virtual clock (task._time)", "asyncore.loop -> clock advance", "task._Trigger=None", "fresh singletons per path",
             "vlan.Network.process_pdu subclassed with a fault schedule"],
      assumes=["processing takes zero virtual time", "a held (delayed) frame is eventually delivered unless the medium went silent"])
def txn(d, iocb, S, segc, segs, wc, ws, retries, req, resp, nf, kinds, horizon, mode="ack"):
    w = World()
    faults = draw_faults(d, nf, kinds, horizon)
    lan = nl.FaultLAN(faults, world=w)
    cdev = nl.make_device("c", 10, maxApduLengthAccepted=S, segmentationSupported=SEG[segc],
                          numberOfApduRetries=retries, apduTimeout=APDU_TIMEOUT, apduSegmentTimeout=SEG_TIMEOUT)
    sdev = nl.make_device("s", 20, maxApduLengthAccepted=S, segmentationSupported=SEG[segs],
                          numberOfApduRetries=retries, apduTimeout=APDU_TIMEOUT, apduSegmentTimeout=SEG_TIMEOUT)
    client = (nl.IOStack if iocb else nl.AppStack)(cdev, lan, window=wc)
    server = nl.AppStack(sdev, lan, window=ws, app_timeout=APP_TIMEOUT)
    reqp = d.bytes(req[0], req[1], 'req_payload')
    respp = d.bytes(resp[0], resp[1], 'resp_payload')
    server.pt_result = respp
    server.pt_mode = mode
    apdu = nl.private_transfer(server.address, reqp)
    if iocb:
        io = client.submit(apdu)
    else:
        client.request(apdu)
    invoke = apdu.apduInvokeID

    # run to quiescence: nothing scheduled, nothing deferred
    w.run()
    if lan.flush():
        w.run()
    t_end = w.clock

    # ---- exactly one outcome, of a legal kind, for this request
    if iocb:
        outcomes = [(c[1] if c[0] == IO_COMPLETED else c[2], c[3]) for c in io.calls]
        if len(io.calls) == 1 and io.calls[0][0] not in (IO_COMPLETED, IO_ABORTED):
            raise Violation("iocb-state", state=io.calls[0][0])
    else:
        outcomes = list(zip(client.confirmations, client.conf_times))
    if len(outcomes) != 1:
        raise Violation("outcome-count", n=len(outcomes), kinds=[nl.outcome_kind(o[0]) for o in outcomes],
                        fates=lan.fate, mode=mode)
    out, t_out = outcomes[0]
    kind = nl.outcome_kind(out)
    if kind not in ("ack", "error", "reject", "abort"):
        raise Violation("outcome-kind", kind=kind)
    if out.apduInvokeID != invoke:
        raise Violation("outcome-invoke-id", got=out.apduInvokeID, want=invoke)
    # with a loss-free medium the outcome is the one the server chose
    if all(f == "delivered" for f in lan.fate):
        d.flag(mode in ("ack", "error", "reject") and kind != mode and kind != "abort",
               "outcome-mismatch", got=kind, mode=mode)
    if kind == "ack" and isinstance(out, ConfirmedPrivateTransferACK):
        got = nl.payload_of(out, 'resultBlock')
        if got is None or bytes(got) != bytes(respp):
            raise Violation("ack-payload", got=got, want=respp)
    # ---- in bounded time
    bound = time_bound(retries, req[1], resp[1], S)
    if t_out > bound:
        raise Violation("outcome-late", t=t_out, bound=bound, fates=lan.fate)
    # ---- no residue
    rc, rs = nl.residue(client), nl.residue(server)
    if rc or rs:
        raise Violation("residue", client=rc, server=rs, fates=lan.fate, outcome=kind)
    if not w.idle():
        raise Violation("timer-left")
    # ---- and no further frames for it
    n_frames = len(lan.frames)
    w.run(duration=bound)
    if len(lan.frames) != n_frames:
        raise Violation("frames-after-quiescence", extra=len(lan.frames) - n_frames)
    if (len(io.calls) if iocb else len(client.confirmations)) != 1:
        raise Violation("late-second-outcome")
    # (a retransmitted request after the first answer was lost is legitimately served again;
    #  C11 covers duplicates that arrive while the original is still being processed)
    d.note(outcome=kind, t=t_out, frames=n_frames, fates=lan.fate, t_end=t_end)
    d.reach()


ALL_KINDS = [nl.DROP, nl.DUP, nl.HOLD, nl.DELAY, nl.SILENCE]


def label(p):
    return "%s,S%d,seg%d/%d,w%d/%d,r%d,req%s,resp%s,%dx%s,%s%s" % (
        "iocb" if p["iocb"] else "direct", p["S"], p["segc"], p["segs"], p["wc"], p["ws"], p["retries"],
        "-".join(map(str, p["req"])), "-".join(map(str, p["resp"])), p["nf"],
        "".join("DUHSL"[k] for k in p["kinds"]), p["mode"],
        (",first=" + nl.FAULT_NAMES[p["first_kind"]]) if "first_kind" in p else "")


def instances(tier):
    q = tier == "quick"
    out = []
    S = 50
    # a private-transfer body is 10 octets + payload (11 from 5 octets of payload on); S = 50:
    # payload 3 -> unsegmented, 60 -> 2 segments, 100 -> 3 segments, 150 -> 4 segments
    base = dict(S=S, wc=2, ws=2, retries=1, horizon=14, mode="ack")
    both = SEG.index("segmentedBoth")
    if q:
        cfgs = [
            # unsegmented both ways, every single fault
            dict(iocb=False, segc=both, segs=both, req=(3, 3), resp=(3, 3), nf=1, kinds=ALL_KINDS),
            dict(iocb=True, segc=both, segs=both, req=(0, 1), resp=(2, 2), nf=1, kinds=ALL_KINDS),
            # segmented request (2 / 3 segments), unsegmented response
            dict(iocb=False, segc=both, segs=both, req=(60, 60), resp=(2, 2), nf=1, kinds=[nl.DROP, nl.DUP, nl.HOLD, nl.SILENCE]),
            dict(iocb=True, segc=both, segs=both, req=(100, 100), resp=(0, 0), nf=1, kinds=[nl.DROP, nl.DUP]),
            # unsegmented request, segmented response
            dict(iocb=True, segc=both, segs=both, req=(2, 2), resp=(60, 60), nf=1, kinds=ALL_KINDS),
            dict(iocb=False, segc=both, segs=both, req=(0, 0), resp=(100, 100), nf=1, kinds=[nl.DROP, nl.HOLD]),
            # both segmented, window 1 vs 3
            dict(iocb=False, segc=both, segs=both, req=(100, 100), resp=(100, 100), nf=1, kinds=[nl.DROP, nl.DUP], wc=1, ws=3),
            # capability mismatches: must end in an abort, not silence
            dict(iocb=False, segc=0, segs=both, req=(60, 60), resp=(2, 2), nf=0, kinds=ALL_KINDS),
            dict(iocb=True, segc=1, segs=both, req=(2, 2), resp=(60, 60), nf=0, kinds=ALL_KINDS),
            dict(iocb=False, segc=both, segs=0, req=(2, 2), resp=(60, 60), nf=0, kinds=ALL_KINDS),
            # other outcomes
            dict(iocb=False, segc=both, segs=both, req=(2, 2), resp=(0, 0), nf=1, kinds=[nl.DROP, nl.DUP], mode="error"),
            dict(iocb=True, segc=both, segs=both, req=(2, 2), resp=(0, 0), nf=1, kinds=[nl.DROP, nl.DUP], mode="reject"),
            dict(iocb=False, segc=both, segs=both, req=(2, 2), resp=(0, 0), nf=1, kinds=[nl.DROP], mode="abort"),
            dict(iocb=True, segc=both, segs=both, req=(2, 2), resp=(0, 0), nf=0, kinds=[nl.DROP], mode="silent"),
            # a server that takes a SEGMENTED request (every segment acknowledged) and never answers: retries 1 and 2
            dict(iocb=False, segc=both, segs=both, req=(60, 60), resp=(0, 0), nf=0, kinds=[nl.DROP], mode="silent"),
            dict(iocb=True, segc=both, segs=both, req=(100, 100), resp=(0, 0), nf=0, kinds=[nl.DROP], mode="silent", retries=2),
            # retry counts 0 and 3 under total silence from any point on
            dict(iocb=False, segc=both, segs=both, req=(2, 2), resp=(2, 2), nf=1, kinds=[nl.SILENCE], retries=0),
            dict(iocb=True, segc=both, segs=both, req=(2, 2), resp=(2, 2), nf=1, kinds=[nl.SILENCE], retries=3),
        ]
        for c in cfgs:
            p = dict(base)
            p.update(c)
            out.append(Inst(txn, p, budget=80, path_timeout=60, label=label(p)))
    else:
        for iocb in (False, True):
            for (req, resp) in [((0, 4), (3, 3)), ((33, 35), (2, 2)), ((2, 2), (33, 35)), ((60, 60), (2, 2)),
                                ((2, 2), (60, 60)), ((100, 100), (100, 100)), ((150, 150), (140, 140))]:
                for (wc, ws) in [(2, 2), (1, 3), (8, 1), (3, 8)]:
                    p = dict(base, iocb=iocb, segc=both, segs=both, req=req, resp=resp, nf=1, kinds=ALL_KINDS,
                             wc=wc, ws=ws, horizon=22)
                    out.append(Inst(txn, p, budget=500, path_timeout=90, label=label(p)))
        # two faults on the unsegmented and lightly segmented shapes
        for (req, resp) in [((3, 3), (3, 3)), ((60, 60), (2, 2)), ((2, 2), (60, 60))]:
            for k1 in ALL_KINDS:
                p = dict(base, iocb=False, segc=both, segs=both, req=req, resp=resp, nf=2, kinds=ALL_KINDS,
                         horizon=12, first_kind=k1)
                out.append(Inst(txn2, p, budget=900, path_timeout=90, label=label(p)))
        # all 4x4 segmentation-support settings on a shape that needs segmentation both ways
        for segc in range(4):
            for segs in range(4):
                p = dict(base, iocb=bool((segc + segs) % 2), segc=segc, segs=segs, req=(60, 60), resp=(60, 60), nf=1,
                         kinds=[nl.DROP, nl.DUP])
                out.append(Inst(txn, p, budget=300, path_timeout=90, label=label(p)))
        # retries 0..3 x outcome modes
        for retries in range(4):
            for mode in ("ack", "error", "reject", "abort", "silent"):
                p = dict(base, iocb=bool(retries % 2), segc=both, segs=both, req=(2, 2), resp=(2, 2), nf=1, kinds=ALL_KINDS,
                         retries=retries, mode=mode)
                out.append(Inst(txn, p, budget=300, path_timeout=90, label=label(p)))
        # S = 128
        for (req, resp) in [((130, 130), (2, 2)), ((2, 2), (130, 130)), ((260, 260), (260, 260))]:
            p = dict(base, S=128, iocb=False, segc=both, segs=both, req=req, resp=resp, nf=1, kinds=ALL_KINDS, horizon=18)
            out.append(Inst(txn, p, budget=500, path_timeout=90, label=label(p)))
    return out


def txn2(d, first_kind, **p):
    """two faults; the first fault's kind is fixed per instance to split the tree"""
    kinds = p.pop("kinds")
    return _txn_kinds(d, [[first_kind], kinds], **p)


def _txn_kinds(d, kinds_per_fault, **p):
    # same scenario, fault kinds constrained per fault
    orig = draw_faults

    def df(d_, nf, kinds, horizon):
        faults = []
        for k in range(nf):
            idx = d_.int(0, horizon, 'fault%d_at' % k)
            kind = d_.pick(kinds_per_fault[k], 'fault%d_kind' % k)
            arg = d_.pick([1, 2], 'fault%d_hold' % k) if kind in (nl.HOLD, nl.DELAY) else 1
            faults.append(nl.Fault(idx, kind, arg))
        return faults
    globals()['draw_faults'] = df
    try:
        return txn(d, kinds=None, **p)
    finally:
        globals()['draw_faults'] = orig


txn2.meta = txn.meta


# ------------------------------------------------------------------ one transition from a symbolic state
from bacpypes.comm import bind, Server, ServiceAccessPoint, ApplicationServiceElement      # noqa: E402
from bacpypes.pdu import Address                                                            # noqa: E402
from bacpypes.app import DeviceInfoCache                                                    # noqa: E402
from bacpypes import appservice as AS                                                       # noqa: E402
from bacpypes.apdu import (ConfirmedRequestPDU, SimpleAckPDU, ComplexAckPDU, ErrorPDU,      # noqa: E402
                           RejectPDU, SegmentAckPDU)

SSM_FIELDS = ("state", "retryCount", "segmentRetryCount", "sentAllSegments", "initialSequenceNumber",
              "lastSequenceNumber", "actualWindowSize", "segmentCount", "segmentSize", "segmentAPDU", "invokeID")


class _Below(Server):
    def __init__(self):
        Server.__init__(self)
        self.sent = []

    def indication(self, pdu):
        self.sent.append(pdu)


class _Above(ApplicationServiceElement):
    """what the state machine access point hands to the layer above"""

    def __init__(self):
        ApplicationServiceElement.__init__(self)
        self.up = []

    def indication(self, apdu):
        self.up.append(("indication", apdu))

    def confirmation(self, apdu):
        self.up.append(("confirmation", apdu))


def _rig(retries):
    w = World()
    dev = nl.make_device("x", 30, numberOfApduRetries=retries, segmentationSupported="segmentedBoth",
                         maxApduLengthAccepted=50, maxSegmentsAccepted=16)
    smap = AS.StateMachineAccessPoint(dev, DeviceInfoCache())
    below, above = _Below(), _Above()
    bind(above, smap, below)
    return w, smap, below, above


def _event_apdu(d, types, peer, inv):
    t = d.pick(types, 'event')
    seq, win = d.int(0, 255, 'seq'), d.int(0, 255, 'win')
    if t == "simple-ack":
        a = SimpleAckPDU(18, inv)
    elif t == "complex-ack":
        a = ComplexAckPDU(18, inv)
        a.apduSeg, a.apduMor = d.bool('seg'), d.bool('mor')
        a.apduSeq, a.apduWin = seq, win
        a.put_data(bytes([0x09, 0x07, 0x19, 0x01]))
    elif t == "error":
        a = ErrorPDU(18, inv)
    elif t == "reject":
        a = RejectPDU(inv, 4)
    elif t == "abort":
        a = AbortPDU(d.bool('srv'), inv, 0)
    elif t == "segment-ack":
        a = SegmentAckPDU(d.bool('nak'), d.bool('srv'), inv, seq, win)
    elif t == "request":
        a = ConfirmedRequestPDU(18)
        a.apduInvokeID = inv
        a.apduSeg, a.apduMor, a.apduSA = d.bool('seg'), d.bool('mor'), d.bool('sa')
        a.apduSeq, a.apduWin = seq, win
        a.apduMaxSegs, a.apduMaxResp = 4, 0
        a.put_data(bytes([0x09, 0x07, 0x19, 0x01]))
    else:
        return t, None
    a.pduSource = peer
    return t, a


def _ghost_sent_upto(d, tr, nseg):
    """ghost variable of the sender invariant: the highest segment index sent so far.  While no window is agreed
    only segment 0 was sent; afterwards at least the window start; the sent-all flag says it reached the last"""
    if tr.actualWindowSize is None:
        sent_upto = 0
    else:
        sent_upto = d.int(0, nseg - 1, 'sent_upto')
        d.assume(tr.initialSequenceNumber <= sent_upto)
    d.assume(bool(tr.sentAllSegments) == (sent_upto == nseg - 1))
    return sent_upto


def _conforming_ack(d, ev, tr, sent_upto):
    """a conforming peer acknowledges only segments it was sent, with a window of 1..127; a sequence number
    'behind' the window start is a stale duplicate"""
    d.assume(1 <= ev.apduWin <= 127)
    delta = ev.apduSeq - tr.initialSequenceNumber
    if delta < 0:
        delta += 256
    if delta < 128:
        d.assume(tr.initialSequenceNumber + delta <= sent_upto)


def _sender_invariant(tr, nseg, sent_upto, frames):
    """the invariant assumed for sender pre-states holds again afterwards (else the lemma is not inductive)"""
    for f in frames:
        if getattr(f, "apduSeg", False) and f.apduSeq is not None and f.apduSeq > sent_upto:
            sent_upto = f.apduSeq           # fewer than 256 segments here: sequence number = index
    if not (0 <= tr.initialSequenceNumber < nseg):
        raise Violation("invariant-window-start", initial=tr.initialSequenceNumber, segments=nseg)
    if tr.actualWindowSize is not None and tr.initialSequenceNumber > sent_upto:
        raise Violation("invariant-window-start-not-sent", initial=tr.initialSequenceNumber, sent_upto=sent_upto)
    if bool(tr.sentAllSegments) != (sent_upto == nseg - 1):
        raise Violation("invariant-sent-all-flag", sentAll=tr.sentAllSegments, sent_upto=sent_upto, segments=nseg)


def _check_post(d, tr, live_list, outcomes, was_terminal=False):
    terminal = tr.state in (AS.COMPLETED, AS.ABORTED)
    listed = any(x is tr for x in live_list)
    if terminal:
        if listed:
            raise Violation("terminal-transaction-still-listed", state=tr.state)
        if tr.isScheduled:
            raise Violation("terminal-transaction-keeps-timer", state=tr.state)
    else:
        if not listed:
            raise Violation("live-transaction-not-listed", state=tr.state)
        if not tr.isScheduled:
            raise Violation("live-transaction-without-timer", state=tr.state)
    return terminal


@meta(bounds="one real ClientSSM in a symbolic state (state in SEGMENTED_REQUEST / AWAIT_CONFIRMATION / SEGMENTED_CONFIRMATION, "
             "retry counters 0..retries, sent-all flag, sequence numbers 0..255, window none or 1..127, 1..4 segments) satisfying the "
             "representation invariant 'live <=> listed <=> timer armed <=> no outcome yet'; one event: any reply APDU the access "
             "point routes to a client transaction (simple/complex ack, error, reject, abort, segment-ack with symbolic flags, "
             "sequence number and window 0..255) or the timer",
      outside="the invariant is assumed for the pre-state and shown for the post-state (one inductive step: histories of any "
              "length, provided the invariant captures the reachable states); payload content (C05)",
      stubs=["fresh singletons per path", "virtual clock", "state fields of SSM set directly (the anchors the property names)"])
def ssm_step_client(d, retries):
    w, smap, below, above = _rig(retries)
    peer = Address(9)
    tr = AS.ClientSSM(smap, peer)
    for f in SSM_FIELDS:
        if not hasattr(tr, f):
            d.note(skipped="state field %s not present" % f)
            d.reach()
            return
    smap.clientTransactions.append(tr)
    inv = 7
    nseg = d.int(1, 4, 'segments')
    req = ConfirmedRequestPDU(18)
    req.apduInvokeID = inv
    req.pduDestination = peer
    req.put_data(bytes(range(40)) * nseg)
    tr.segmentAPDU, tr.invokeID, tr.segmentSize, tr.segmentCount = req, inv, 44, nseg
    state = d.pick([AS.SEGMENTED_REQUEST, AS.AWAIT_CONFIRMATION, AS.SEGMENTED_CONFIRMATION], 'state')
    tr.retryCount = d.int(0, retries, 'retryCount')
    tr.segmentRetryCount = d.int(0, retries, 'segmentRetryCount')
    tr.initialSequenceNumber = d.int(0, 255, 'initialSequenceNumber')
    tr.lastSequenceNumber = d.int(0, 255, 'lastSequenceNumber')
    if state == AS.SEGMENTED_REQUEST:
        d.assume(nseg >= 2)
        tr.sentAllSegments = d.bool('sentAllSegments')
        if d.bool('window_known'):
            tr.actualWindowSize = d.int(1, 127, 'actualWindowSize')
        else:
            tr.actualWindowSize = None
            d.assume(tr.initialSequenceNumber == 0)
            d.assume(not tr.sentAllSegments)
        d.assume(tr.initialSequenceNumber < nseg)
        sent_upto = _ghost_sent_upto(d, tr, nseg)
    elif state == AS.AWAIT_CONFIRMATION:
        tr.sentAllSegments = True
        tr.actualWindowSize = d.int(1, 127, 'actualWindowSize') if nseg > 1 else None
    else:
        tr.sentAllSegments = True
        tr.actualWindowSize = d.int(1, 127, 'actualWindowSize')
        ctx = ComplexAckPDU(18, inv)
        ctx.pduSource = peer
        ctx.put_data(b"\x01\x02")
        tr.segmentAPDU = ctx
    tr.state = state
    tr.start_timer(1000)
    retry0, segretry0 = tr.retryCount, tr.segmentRetryCount
    kind, ev = _event_apdu(d, ["simple-ack", "complex-ack", "error", "reject", "abort", "segment-ack", "timeout"], peer, inv)
    n_up, n_down = len(above.up), len(below.sent)
    if ev is None:
        w.clock = 1.0
        tr.isScheduled = False          # the scheduler popped it, as TaskManager.get_next_task does
        w.tm.suspend_task(tr)
        tr.process_task()
    else:
        # only what StateMachineAccessPoint.confirmation routes to a client transaction
        if kind == "abort":
            d.assume(ev.apduSrv)
        if kind == "segment-ack":
            d.assume(ev.apduSrv)
            if state == AS.SEGMENTED_REQUEST:
                _conforming_ack(d, ev, tr, sent_upto)
        smap.confirmation(ev)
    outcomes = above.up[n_up:]
    terminal = _check_post(d, tr, smap.clientTransactions, outcomes)
    if tr.state == AS.SEGMENTED_REQUEST and state == AS.SEGMENTED_REQUEST:
        _sender_invariant(tr, nseg, sent_upto, below.sent[n_down:])
    if terminal and len(outcomes) != 1:
        raise Violation("terminal-without-exactly-one-outcome", n=len(outcomes), event=kind, state=state)
    if not terminal and outcomes:
        raise Violation("outcome-while-still-live", n=len(outcomes), event=kind, state=state)
    for (how, o) in outcomes:
        if how != "confirmation" or o.apduInvokeID != inv:
            raise Violation("outcome-misdirected", how=how, invoke=o.apduInvokeID)
    if kind == "timeout" and not terminal:
        # a retry edge: one of the retry counters went up, within the configured bound
        if not ((tr.retryCount == retry0 + 1 and tr.retryCount <= retries) or
                (tr.segmentRetryCount == segretry0 + 1 and tr.segmentRetryCount <= retries)):
            raise Violation("retry-without-progress", retry=(retry0, tr.retryCount), seg=(segretry0, tr.segmentRetryCount))
    d.reach()


@meta(bounds="one real ServerSSM in a symbolic state (IDLE just created / SEGMENTED_REQUEST / AWAIT_RESPONSE / SEGMENTED_RESPONSE, "
             "counters and sequence numbers as for the client) satisfying the same invariant; one event: a confirmed-request "
             "(segment) / abort / segment-ack from the client with symbolic flags, or the application's response "
             "(simple ack, complex ack of 1..3 segments, error, reject, abort), or the timer",
      outside="as ssm_step_client",
      stubs=["fresh singletons per path", "virtual clock", "state fields of SSM set directly (the anchors the property names)"])
def ssm_step_server(d, retries):
    w, smap, below, above = _rig(retries)
    peer = Address(9)
    inv = 7
    tr = AS.ServerSSM(smap, peer)
    for f in SSM_FIELDS:
        if not hasattr(tr, f):
            d.note(skipped="state field %s not present" % f)
            d.reach()
            return
    smap.serverTransactions.append(tr)
    state = d.pick([AS.IDLE, AS.SEGMENTED_REQUEST, AS.AWAIT_RESPONSE, AS.SEGMENTED_RESPONSE], 'state')
    tr.invokeID = inv
    tr.segmentRetryCount = d.int(0, retries, 'segmentRetryCount')
    tr.initialSequenceNumber = d.int(0, 255, 'initialSequenceNumber')
    tr.lastSequenceNumber = d.int(0, 255, 'lastSequenceNumber')
    tr.segmented_response_accepted = True
    tr.maxSegmentsAccepted = 16
    tr.maxApduLengthAccepted = 50
    if state == AS.SEGMENTED_REQUEST:
        ctx = ConfirmedRequestPDU(18)
        ctx.apduInvokeID = inv
        ctx.pduSource = peer
        ctx.put_data(b"\x09\x07")
        tr.segmentAPDU = ctx
        tr.actualWindowSize = d.int(1, 127, 'actualWindowSize')
    elif state == AS.SEGMENTED_RESPONSE:
        nseg = d.int(2, 4, 'segments')
        ctx = ComplexAckPDU(18, inv)
        ctx.pduDestination = peer
        ctx.put_data(bytes(range(45)) * nseg)
        tr.segmentAPDU, tr.segmentSize, tr.segmentCount = ctx, 45, nseg
        tr.sentAllSegments = d.bool('sentAllSegments')
        if d.bool('window_known'):
            tr.actualWindowSize = d.int(1, 127, 'actualWindowSize')
        else:
            tr.actualWindowSize = None
            d.assume(tr.initialSequenceNumber == 0)
            d.assume(not tr.sentAllSegments)
        d.assume(tr.initialSequenceNumber < nseg)
        sent_upto = _ghost_sent_upto(d, tr, nseg)
    tr.state = state
    if state != AS.IDLE:
        tr.start_timer(1000)
    events = {AS.IDLE: ["request"],
              AS.SEGMENTED_REQUEST: ["request", "abort", "timeout"],
              AS.AWAIT_RESPONSE: ["request", "abort", "timeout", "app-simple-ack", "app-complex-ack", "app-error",
                                  "app-reject", "app-abort"],
              AS.SEGMENTED_RESPONSE: ["segment-ack", "abort", "timeout"]}[state]
    kind, ev = _event_apdu(d, events, peer, inv)
    n_up, n_down = len(above.up), len(below.sent)
    if kind == "timeout":
        w.clock = 1.0
        tr.isScheduled = False
        w.tm.suspend_task(tr)
        tr.process_task()
    elif kind.startswith("app-"):
        if kind == "app-simple-ack":
            r = SimpleAckPDU(18, inv)
        elif kind == "app-complex-ack":
            r = ComplexAckPDU(18, inv)
            r.put_data(bytes(range(40)) * d.int(1, 3, 'response_chunks'))
        elif kind == "app-error":
            r = ErrorPDU(18, inv)
        elif kind == "app-reject":
            r = RejectPDU(inv, 4)
        else:
            r = AbortPDU(True, inv, 0)
        r.pduDestination = peer
        smap.sap_confirmation(r)
    else:
        if kind == "abort":
            d.assume(not ev.apduSrv)
        if kind == "segment-ack":
            d.assume(not ev.apduSrv)
            _conforming_ack(d, ev, tr, sent_upto)
        if kind == "request" and state == AS.IDLE:
            d.assume(not ev.apduSeg or (ev.apduSeq == 0 and 1 <= ev.apduWin <= 127))
        smap.confirmation(ev)
    terminal = _check_post(d, tr, smap.serverTransactions, None)
    if tr.state == AS.SEGMENTED_RESPONSE and state == AS.SEGMENTED_RESPONSE:
        _sender_invariant(tr, tr.segmentCount, sent_upto, below.sent[n_down:])
    # the request is handed to the application at most once, and only on the way into AWAIT_RESPONSE
    ups = above.up[n_up:]
    reqs = [o for (how, o) in ups if how == "indication" and isinstance(o, ConfirmedRequestPDU)]
    if len(reqs) > 1 or (reqs and tr.state != AS.AWAIT_RESPONSE and not terminal):
        raise Violation("request-indicated-more-than-once-or-in-wrong-state", n=len(reqs), state=tr.state)
    if state == AS.AWAIT_RESPONSE and kind == "request" and reqs:
        raise Violation("duplicate-request-indicated-again")
    if kind.startswith("app-") and state == AS.AWAIT_RESPONSE:
        if len(below.sent) == n_down:
            raise Violation("application-response-not-sent", response=kind)
    d.reach()


_c04_scn_instances = instances


def instances(tier):
    out = _c04_scn_instances(tier)
    q = tier == "quick"
    for retries in ((1,) if q else (0, 1, 3)):
        out.append(Inst(ssm_step_client, dict(retries=retries), budget=80 if q else 600, path_timeout=60))
        out.append(Inst(ssm_step_server, dict(retries=retries), budget=80 if q else 600, path_timeout=60))
    return out


# ------------------------------------------------------------------ several IOCBs queued for one peer
@meta(bounds="one IOCB client and one server; k requests submitted back to back through request_io to the same peer (the "
             "per-destination queue serialises them); each request's fate chosen symbolically from {ack, error, reject, abort "
             "by the server application, no answer at all}; retry count 0",
      outside="more than k queued requests, several peers (C11), lossy medium (txn)",
      stubs=["virtual clock (task._time)", "asyncore.loop -> clock advance", "task._Trigger -> wake flag", "fresh singletons per path"])
def iocb_queue(d, k, dup=False):
    w = World()
    # dup: the network duplicates the first request frame, so that the server answers it twice (the second answer is a stray
    # by the time it arrives: the next request is active then)
    lan = nl.FaultLAN([nl.Fault(0, nl.DUP, 1)] if dup else [], world=w)
    cdev = nl.make_device("c", 10, numberOfApduRetries=0, apduTimeout=APDU_TIMEOUT)
    sdev = nl.make_device("s", 20)
    client = nl.IOStack(cdev, lan)
    server = nl.AppStack(sdev, lan, app_timeout=APP_TIMEOUT)
    modes = [d.pick(["ack", "error", "reject", "abort", "silent"], 'fate%d' % i) for i in range(k)]
    seq = list(modes)

    # the server application answers the i-th request it is handed according to modes[i]
    orig = server.do_ConfirmedPrivateTransferRequest

    def handler(apdu):
        # the fate goes with the request (its payload names it), not with the order of arrival
        server.pt_mode = seq[bytes(apdu.serviceParameters.cast_out(nl.OctetString))[0]]
        return orig(apdu)
    server.do_ConfirmedPrivateTransferRequest = handler
    ios = []
    for i in range(k):
        ios.append(client.submit(nl.private_transfer(server.address, bytes([i]))))
    w.run()
    want = {"ack": "ack", "error": "error", "reject": "reject", "abort": "abort", "silent": "abort"}
    for i, io in enumerate(ios):
        if len(io.calls) != 1:
            raise Violation("iocb-completion-count", index=i, n=len(io.calls), fates=modes)
        state, resp, err, t = io.calls[0]
        out = resp if state == IO_COMPLETED else err
        if state not in (IO_COMPLETED, IO_ABORTED):
            raise Violation("iocb-state", index=i, state=state)
        kind = nl.outcome_kind(out)
        if kind != want[modes[i]]:
            raise Violation("iocb-outcome", index=i, got=kind, want=want[modes[i]], fates=modes)
        if t > (i + 1) * (APDU_TIMEOUT + APP_TIMEOUT) / 1000.0 + 1:
            raise Violation("iocb-late", index=i, t=t)
    # served in submission order, each handed to the server application once (a duplicated request frame that arrives after
    # its transaction is over is a new request to the server: it may be handed over a second time)
    got = [nl.payload_of(r, 'serviceParameters') for r in server.pt_seen]
    if dup:
        got = [g for i, g in enumerate(got) if i == 0 or g != got[i - 1]]
    if got != [bytes([i]) for i in range(k)]:
        raise Violation("iocb-order", got=got)
    if nl.residue(client) or nl.residue(server) or not w.idle():
        raise Violation("residue", client=nl.residue(client), server=nl.residue(server))
    d.reach()


_c04_instances_2 = instances


def instances(tier):
    out = _c04_instances_2(tier)
    out.append(Inst(iocb_queue, dict(k=2 if tier == "quick" else 3), budget=80 if tier == "quick" else 600))
    out.append(Inst(iocb_queue, dict(k=2 if tier == "quick" else 3, dup=True), budget=80 if tier == "quick" else 600,
                    label="k=%d,first request duplicated" % (2 if tier == "quick" else 3)))
    return out


# ------------------------------------------------------------------ a completion callback submits the next request
@meta(bounds="one IOCB client and one server; a chain of k requests to the same peer in which each one is submitted from "
             "inside the completion callback of the one before (the usual way applications poll); the follow-up goes to the "
             "same peer or to a second one (symbolic); each request's fate chosen symbolically from {ack, error, reject, "
             "abort, no answer}; retry count 0",
      outside="chains longer than k; callbacks that submit several requests",
      stubs=["virtual clock (task._time)", "asyncore.loop -> clock advance", "task._Trigger -> wake flag", "fresh singletons per path"])
def iocb_chain(d, k):
    w = World()
    lan = nl.FaultLAN([], world=w)
    cdev = nl.make_device("c", 10, numberOfApduRetries=0, apduTimeout=APDU_TIMEOUT)
    client = nl.IOStack(cdev, lan)
    servers = [nl.AppStack(nl.make_device("s", 20), lan, app_timeout=APP_TIMEOUT),
               nl.AppStack(nl.make_device("t", 21), lan, app_timeout=APP_TIMEOUT)]
    modes = [d.pick(["ack", "error", "reject", "abort", "silent"], 'fate%d' % i) for i in range(k)]
    where = [0] + [d.pick([0, 1], 'peer%d' % i) for i in range(1, k)]
    for srv in servers:
        def handler(apdu, srv=srv, orig=srv.do_ConfirmedPrivateTransferRequest):
            srv.pt_mode = modes[bytes(apdu.serviceParameters.cast_out(nl.OctetString))[0]]
            return orig(apdu)
        srv.do_ConfirmedPrivateTransferRequest = handler
    ios = []

    def submit(i):
        io = nl.IOCB(nl.private_transfer(servers[where[i]].address, bytes([i])))
        io.calls = []

        def done(io_, i=i):
            io_.calls.append((io_.ioState, io_.ioResponse, io_.ioError, nl.now()))
            if i + 1 < k and len(io_.calls) == 1:
                submit(i + 1)
        io.add_callback(done)
        ios.append(io)
        client.request_io(io)
    submit(0)
    w.run()
    want = {"ack": "ack", "error": "error", "reject": "reject", "abort": "abort", "silent": "abort"}
    if len(ios) != k:
        raise Violation("chain-stalled", submitted=len(ios), want=k, fates=modes, peers=where)
    for i, io in enumerate(ios):
        if len(io.calls) != 1:
            raise Violation("iocb-completion-count", index=i, n=len(io.calls), fates=modes, peers=where, chained=True)
        state, resp, err, t = io.calls[0]
        out = resp if state == IO_COMPLETED else err
        kind = nl.outcome_kind(out)
        if kind != want[modes[i]]:
            raise Violation("iocb-outcome", index=i, got=kind, want=want[modes[i]], fates=modes, peers=where, chained=True)
        if t > (i + 1) * (APDU_TIMEOUT + APP_TIMEOUT) / 1000.0 + 1:
            raise Violation("iocb-late", index=i, t=t, chained=True)
    if nl.residue(client) or any(nl.residue(x) for x in servers) or not w.idle():
        raise Violation("residue", client=nl.residue(client), chained=True)
    d.reach()


_c04_instances_3 = instances


def instances(tier):
    out = _c04_instances_3(tier)
    out.append(Inst(iocb_chain, dict(k=2 if tier == "quick" else 3), budget=80 if tier == "quick" else 600))
    return out


# ------------------------------------------------------------------ the application gives up on an IOCB
@meta(bounds="one IOCB client and one server; two requests queued for the same peer, fates symbolic over {ack, error, no answer}; "
             "the application gives up on one of them (symbolic which) by IOCB.abort() or by IOCB.set_timeout(1 s), at once or "
             "after one second (symbolic) - so the block is queued, active, or already complete at that moment; retry count 0",
      outside="more than two queued requests; giving up on both",
      stubs=["virtual clock (task._time)", "asyncore.loop -> clock advance", "task._Trigger -> wake flag", "fresh singletons per path"])
def iocb_abort(d):
    w = World()
    lan = nl.FaultLAN([], world=w)
    cdev = nl.make_device("c", 10, numberOfApduRetries=0, apduTimeout=APDU_TIMEOUT)
    client = nl.IOStack(cdev, lan)
    server = nl.AppStack(nl.make_device("s", 20), lan, app_timeout=APP_TIMEOUT)
    fates = [d.pick(["ack", "error", "silent"], 'fate%d' % i) for i in range(2)]
    j = d.pick([0, 1], 'given_up')
    how = d.pick(["abort", "timeout"], 'how')
    late = d.bool('after_one_second')

    def handler(apdu, orig=server.do_ConfirmedPrivateTransferRequest):
        server.pt_mode = fates[bytes(apdu.serviceParameters.cast_out(nl.OctetString))[0]]
        return orig(apdu)
    server.do_ConfirmedPrivateTransferRequest = handler
    ios = [client.submit(nl.private_transfer(server.address, bytes([i]))) for i in range(2)]
    if late:
        w.run(duration=1.0)
    if how == "abort":
        ios[j].abort(RuntimeError("application gave up"))
    else:
        ios[j].set_timeout(1.0)
    w.run()
    # reference: the queue serves one request at a time; an answered request takes no time, an unanswered one the APDU timeout
    T = (1.0 if late else 0.0) + (1.0 if how == "timeout" else 0.0)
    dur = {"ack": 0.0, "error": 0.0, "silent": APDU_TIMEOUT / 1000.0}
    kind = {"ack": "ack", "error": "error", "silent": "abort"}
    want = [None, None]
    sent = [True, True]
    end0 = dur[fates[0]]
    if j == 0 and (end0 > T or T == 0.0):
        want[0] = "given-up"
        start1 = T
    else:
        want[0] = kind[fates[0]]
        start1 = end0
    if j == 1 and (start1 > T or T == 0.0):
        want[1], sent[1] = "given-up", False
    elif j == 1 and start1 + dur[fates[1]] > T:
        want[1] = "given-up"
    else:
        want[1] = kind[fates[1]]
    for i, io in enumerate(ios):
        if len(io.calls) != 1:
            raise Violation("iocb-completion-count", index=i, n=len(io.calls), fates=fates, given_up=j, how=how, late=late)
        state, resp, err, t = io.calls[0]
        if state == IO_COMPLETED:
            got = nl.outcome_kind(resp)
        elif isinstance(err, nl.OUTCOME_TYPES):
            got = nl.outcome_kind(err)
        else:
            got = "given-up"
        if got != want[i]:
            raise Violation("iocb-outcome", index=i, got=got, want=want[i], fates=fates, given_up=j, how=how, late=late)
        if t > T + 2 * (APDU_TIMEOUT + APP_TIMEOUT) / 1000.0 + 1:
            raise Violation("iocb-late", index=i, t=t)
    seen = sorted(bytes(r.serviceParameters.cast_out(nl.OctetString))[0] for r in server.pt_seen)
    if seen != [i for i in range(2) if sent[i]]:
        raise Violation("requests-on-the-wire", seen=seen, want=[i for i in range(2) if sent[i]], fates=fates, given_up=j,
                        how=how, late=late)
    # an idle, empty per-address queue object may stay behind after the application gave up (it is reused by the next
    # request to that address and holds nothing of this one): what counts is a queue that still holds a block
    cres = nl.residue(client)
    cres.pop("iocb_queues", None)
    held = [str(a) for a, q in client.queue_by_address.items() if q.active_iocb or q.ioQueue.queue]
    if cres or held or nl.residue(server) or not w.idle():
        raise Violation("residue", client=cres, held=held, server=nl.residue(server), given_up=j, how=how)
    d.reach()


_c04_instances_4 = instances


def instances(tier):
    out = _c04_instances_4(tier)
    out.append(Inst(iocb_abort, {}, budget=120 if tier == "quick" else 600))
    return out


# ------------------------------------------------------------------ requests to an answering and a silent peer, among other timers
from bacpypes.task import FunctionTask as _FunctionTask                        # noqa: E402


@meta(bounds="one client stack, one answering server and one station that never answers; requests to both submitted in the same "
             "instant (symbolic order), retry count symbolic 0..1; unrelated application timers already scheduled (symbolic: "
             "none, one far in the future, one far and one near) - the transaction timers share the scheduler with them",
      outside="more than two concurrent requests (C11), lossy medium (txn)",
      stubs=["virtual clock (task._time)", "asyncore.loop -> clock advance", "task._Trigger -> wake flag", "fresh singletons per path"])
def among_timers(d):
    w = World()
    lan = nl.FaultLAN([], world=w)
    retries = d.int(0, 1, 'retries')
    cdev = nl.make_device("c", 10, numberOfApduRetries=retries, apduTimeout=APDU_TIMEOUT)
    client = nl.AppStack(cdev, lan)
    server = nl.AppStack(nl.make_device("s", 20), lan, app_timeout=APP_TIMEOUT)
    nl.RawPeer(33, lan)
    fired = []
    others = d.pick(["none", "far", "far+near", "near+far"], 'other_timers')
    for name in others.split("+"):
        if name == "far":
            _FunctionTask(fired.append, "far").install_task(delta=3600.0)
        elif name == "near":
            _FunctionTask(fired.append, "near").install_task(delta=0.5)
    silent_first = d.bool('silent_peer_first')
    dests = [Address(33), server.address] if silent_first else [server.address, Address(33)]
    for i, dest in enumerate(dests):
        client.request(nl.private_transfer(dest, bytes([i])))
    bound = (retries + 1) * APDU_TIMEOUT / 1000.0
    w.run(until=w.clock + bound + 0.25)
    got = [(str(c.pduSource), nl.outcome_kind(c)) for c in client.confirmations]
    want = sorted([(str(server.address), "ack"), ("33", "abort")])
    if sorted(got) != want:
        raise Violation("outcomes-within-bound", got=got, want=want, retries=retries, other_timers=others,
                        silent_first=silent_first, bound=bound)
    if nl.residue(client) or nl.residue(server):
        raise Violation("residue", client=nl.residue(client), server=nl.residue(server))
    if "near" in others and fired != ["near"]:
        raise Violation("unrelated-timer", fired=fired)
    # nothing of the two transactions is left in the scheduler: the next thing due, if any, is the far timer
    w.run(until=w.clock + 3600.0)
    if len(client.confirmations) != 2:
        raise Violation("late-outcome", n=len(client.confirmations))
    if "far" in others and fired[-1:] != ["far"]:
        raise Violation("unrelated-timer", fired=fired)
    if not w.idle():
        raise Violation("leftover-timer")
    d.reach()


_c04_instances_5 = instances


def instances(tier):
    out = _c04_instances_5(tier)
    out.append(Inst(among_timers, {}, budget=120 if tier == "quick" else 600))
    return out


# ------------------------------------------------------------------ a group of IOCBs
@meta(bounds="an IOGroup of three confirmed requests (two to one peer - queued one behind the other -, one to a second peer), "
             "fates symbolic over {ack, error, no answer}; the group's completion callback is made exactly once, not before the "
             "last member has its own outcome, every member has exactly one outcome of the right kind, nothing is left",
      outside="groups of groups; IOGroup.abort",
      stubs=["virtual clock (task._time)", "asyncore.loop -> clock advance", "task._Trigger -> wake flag", "fresh singletons per path"])
def iocb_group(d):
    from bacpypes.iocb import IOGroup
    w = World()
    lan = nl.FaultLAN([], world=w)
    cdev = nl.make_device("c", 10, numberOfApduRetries=0, apduTimeout=APDU_TIMEOUT)
    client = nl.IOStack(cdev, lan)
    servers = [nl.AppStack(nl.make_device("s", 20), lan, app_timeout=APP_TIMEOUT),
               nl.AppStack(nl.make_device("t", 21), lan, app_timeout=APP_TIMEOUT)]
    fates = [d.pick(["ack", "error", "silent"], 'fate%d' % i) for i in range(3)]
    for srv in servers:
        def handler(apdu, srv=srv, orig=srv.do_ConfirmedPrivateTransferRequest):
            srv.pt_mode = fates[bytes(apdu.serviceParameters.cast_out(nl.OctetString))[0]]
            return orig(apdu)
        srv.do_ConfirmedPrivateTransferRequest = handler
    group = IOGroup()
    group_calls = []
    ios = []
    for i, srv in enumerate((servers[0], servers[0], servers[1])):
        io = nl.IOCB(nl.private_transfer(srv.address, bytes([i])))
        io.calls = []
        io.add_callback(lambda io_: io_.calls.append((io_.ioState, io_.ioResponse, io_.ioError, nl.now())))
        ios.append(io)
        group.add(io)
    group.add_callback(lambda g: group_calls.append(([len(x.calls) for x in ios], nl.now())))
    for io in ios:
        client.request_io(io)
    w.run()
    want = {"ack": "ack", "error": "error", "silent": "abort"}
    for i, io in enumerate(ios):
        if len(io.calls) != 1:
            raise Violation("iocb-completion-count", index=i, n=len(io.calls), fates=fates, grouped=True)
        state, resp, err, t = io.calls[0]
        kind = nl.outcome_kind(resp if state == IO_COMPLETED else err)
        if kind != want[fates[i]]:
            raise Violation("iocb-outcome", index=i, got=kind, want=want[fates[i]], fates=fates, grouped=True)
    if len(group_calls) != 1:
        raise Violation("group-completion-count", n=len(group_calls), fates=fates)
    if group_calls[0][0] != [1, 1, 1]:
        raise Violation("group-completed-before-its-members", members_done=group_calls[0][0], fates=fates)
    if nl.residue(client) or any(nl.residue(x) for x in servers) or not w.idle():
        raise Violation("residue", client=nl.residue(client), grouped=True)
    d.reach()


_c04_instances_6 = instances


def instances(tier):
    out = _c04_instances_6(tier)
    out.append(Inst(iocb_group, {}, budget=120 if tier == "quick" else 600))
    return out


# ------------------------------------------------------------------ an outcome produced while the request is being submitted
@meta(bounds="one IOCB client that cannot segment (max APDU 50) and one server; a request too long for one APDU (60 octets of "
             "payload) - the stack refuses it with an abort while the request is still being handed down - and a short one, "
             "queued for the same peer in symbolic order; the application chooses the invoke ID of the long one or leaves it to "
             "the stack (symbolic): each IOCB completes exactly once, the long one with an abort, the short one with the ack",
      outside="other synchronous refusals (C12)",
      stubs=["virtual clock (task._time)", "asyncore.loop -> clock advance", "task._Trigger -> wake flag", "fresh singletons per path"])
def iocb_sync_abort(d):
    w = World()
    lan = nl.FaultLAN([], world=w)
    cdev = nl.make_device("c", 10, numberOfApduRetries=0, apduTimeout=APDU_TIMEOUT, maxApduLengthAccepted=50,
                          segmentationSupported="noSegmentation")
    client = nl.IOStack(cdev, lan)
    server = nl.AppStack(nl.make_device("s", 20, maxApduLengthAccepted=50), lan, app_timeout=APP_TIMEOUT)
    long_first = d.bool('long_first')
    chosen = d.bool('application_chooses_invoke_id')
    long_req = nl.private_transfer(server.address, bytes(60))
    if chosen:
        long_req.apduInvokeID = 77
    short_req = nl.private_transfer(server.address, b"\x01")
    order = [("long", long_req), ("short", short_req)] if long_first else [("short", short_req), ("long", long_req)]
    ios = [(name, client.submit(req)) for name, req in order]
    w.run()
    for name, io in ios:
        if len(io.calls) != 1:
            raise Violation("iocb-completion-count", which=name, n=len(io.calls), long_first=bool(long_first), chosen=bool(chosen))
        state, resp, err, t = io.calls[0]
        kind = nl.outcome_kind(resp if state == IO_COMPLETED else err)
        if kind != ("abort" if name == "long" else "ack"):
            raise Violation("iocb-outcome", which=name, got=kind, long_first=bool(long_first), chosen=bool(chosen))
    if len(server.pt_seen) != 1:
        raise Violation("requests-on-the-wire", n=len(server.pt_seen))
    cres = nl.residue(client)
    if cres or nl.residue(server) or not w.idle():
        raise Violation("residue", client=cres, server=nl.residue(server))
    d.reach()


_c04_instances_7 = instances


def instances(tier):
    out = _c04_instances_7(tier)
    out.append(Inst(iocb_sync_abort, {}, budget=120 if tier == "quick" else 600))
    return out


# ------------------------------------------------------------------ an I-Am from the peer while a request to it is outstanding
@meta(bounds="one client whose application records I-Am announcements and one server; the client knows the server from its I-Am; "
             "the first copy of a request is lost (the answer comes with the retry at 3 s) or the server never answers (symbolic); "
             "one second after the request the server announces itself again: exactly one outcome - the acknowledgement or, "
             "from a silent server, the abort after the retries - and nothing left",
      outside="announcements with other capabilities (C12)",
      stubs=["virtual clock (task._time)", "asyncore.loop -> clock advance", "task._Trigger -> wake flag", "fresh singletons per path"])
def iam_while_waiting(d):
    from .C12 import LearningStack
    w = World()
    silent = d.bool('server_never_answers')
    lan = nl.FaultLAN([] if silent else [nl.Fault(1, nl.DROP, 1)], world=w)     # frame 0 is the I-Am, frame 1 the request
    cdev = nl.make_device("c", 10, numberOfApduRetries=1, apduTimeout=APDU_TIMEOUT)
    client = LearningStack(cdev, lan)
    server = LearningStack(nl.make_device("s", 20), lan, app_timeout=APP_TIMEOUT)
    server.pt_mode = "silent" if silent else "ack"
    server.pt_result = b"\x07"
    server.i_am(address=client.address)
    w.run()
    if client.deviceInfoCache.get_device_info(server.address) is None:
        raise Violation("i-am-not-learned")
    client.request(nl.private_transfer(server.address, b"\x01"))
    w.run(until=w.clock + 1.0)
    server.i_am(address=client.address)
    w.run()
    kinds = [nl.outcome_kind(c) for c in client.confirmations]
    if kinds != (["abort"] if silent else ["ack"]):
        raise Violation("outcome-count", n=len(kinds), kinds=kinds, silent=bool(silent), errors=[e[1] for e in d.errors_logged()])
    if nl.residue(client) or nl.residue(server) or not w.idle():
        raise Violation("residue", client=nl.residue(client), server=nl.residue(server))
    d.reach()


_c04_instances_8 = instances


def instances(tier):
    out = _c04_instances_8(tier)
    out.append(Inst(iam_while_waiting, {}, budget=120 if tier == "quick" else 300))
    # a response of five segments, window 2, every single fault (a lost, duplicated or overtaken segment INSIDE a window)
    both = SEG.index("segmentedBoth")
    p = dict(S=50, wc=2, ws=2, retries=1, horizon=14, mode="ack", iocb=False, segc=both, segs=both, req=(2, 2), resp=(200, 200),
             nf=1, kinds=[nl.DROP, nl.DUP, nl.HOLD])
    out.append(Inst(txn, p, budget=150 if tier == "quick" else 600, path_timeout=60, label=label(p)))
    return out
