"""Engine shim: exact bit operations and range-checked bytes() (written for the C01 harnesses, installed for all by vf/sx.py).

crosshair-tool 0.0.110 *realises* both operands of `a | b` and the symbolic operand of
`a & mask` unless the mask is 2^k-1.  bacpypes assembles and tests octets exactly that way

    Integer.decode     rslt & 0x80 ;  (-1 << 8) | rslt ;  (rslt << 8) | c
    BitString.decode   x & (1 << (7 - i))

so a symbolic round trip of Integer degenerates into an enumeration of every octet value
(477 paths in 60 s and nowhere near exhausted).  Two extra handlers are put in front of
CrossHair's, each exact on all Python integers (two's complement, unbounded):

* `a | b`  ==  `a + b`      when, on the current path, one operand is *necessarily* a
                            multiple of 2^k and the other *necessarily* in [0, 2^k)
                            (decided by the solver, no fork; otherwise CrossHair's own
                            handler runs as before)
* `-2^k | b` == -2^k + (b mod 2^k)   for a concrete -2^k (sign extension)
* `a & m`  ==  ((a // 2^l) mod 2^w) * 2^l   for a concrete mask m made of w contiguous
                            one-bits starting at bit l (floor division, so also right for
                            negative a); other masks: CrossHair's own handler

Third, CrossHair's `bytes(seq)` / `bytearray(seq)` accept a tuple or list holding symbolic
(or, next to a symbolic one, concrete) integers without the `0 <= x < 256` check of the real
constructors; the ValueError only shows up when the counterexample is realised, i.e. the
engine reports "Date((0, -1, 0, 0)) was encoded" and the replay does not reproduce.  The
constructors are wrapped: elements of a real tuple/list are range-checked first (a fork
per element that can be out of range), then CrossHair's own patch runs.

Nothing here is imported under plain-Python replay (no crosshair there): the harness
guards the import.
"""
import operator as ops
from numbers import Integral
from typing import Union

import z3
import crosshair.core_and_libs  # noqa: F401  (registers the patches wrapped below)
import crosshair.core as _core
from crosshair.libimpl import builtinslib as _bl
from crosshair.libimpl.builtinslib import SymbolicInt
from crosshair.statespace import context_statespace
from crosshair.tracers import NoTracing

_installed = False


def _term(x):
    """(z3 term, is symbolic) of an int-like operand, or None"""
    if isinstance(x, _bl.SymbolicInt):
        return x.var, True
    if isinstance(x, bool) or not isinstance(x, int):
        return None
    return z3.IntVal(x), False


def _trailing_zeros(n):
    k = 0
    while n and n % 2 == 0:
        n //= 2
        k += 1
    return k


def _range_checked(inner):
    def checked(*a):
        if len(a) == 1:
            src = a[0]
            with NoTracing():
                plain_seq = type(src) in (tuple, list)
                plain_iter = (not plain_seq) and hasattr(src, '__next__')
            if plain_iter:
                # generator / reversed / map ...: CrossHair would realise every element
                src = list(src)
                a = (src,)
                plain_seq = True
            if plain_seq:
                for x in src:
                    if isinstance(x, int):
                        if x < 0 or x > 255:
                            raise ValueError("byte must be in range(0, 256)")
        return inner(*a)
    checked.__name__ = inner.__name__ + "_range_checked"
    return checked


def install():
    global _installed
    if _installed:
        return
    _installed = True
    for ctor in (bytes, bytearray):
        inner = _core._PATCH_REGISTRATIONS.get(ctor)
        if inner is not None:
            _core._PATCH_REGISTRATIONS[ctor] = _range_checked(inner)
    prev_or = None
    prev_and = None
    # the handlers registered by crosshair for (op, Integral, Integral)
    for op, ta, tb, fn in reversed(_bl._BIN_OPS_SEARCH_ORDER):
        if ta is Integral and tb is Integral:
            if op is ops.or_ and prev_or is None:
                prev_or = fn
            if op is ops.and_ and prev_and is None:
                prev_and = fn
    if prev_or is None or prev_and is None:     # unknown crosshair layout: leave it alone
        return
    # NB the handlers are registered for (int | SymbolicInt) operands only, not for
    # Integral: symbolic *bools* keep CrossHair's own logical &,|,^ handlers

    def or_disjoint(op, a: Union[int, SymbolicInt], b: Union[int, SymbolicInt]):
        with NoTracing():
            ta, tb = _term(a), _term(b)
            if ta is not None and tb is not None and (ta[1] or tb[1]):
                space = context_statespace()
                for (x, xs), (y, ys), xc in ((ta, tb, a), (tb, ta, b)):
                    # x == -2^k concrete (all ones from bit k up): the result keeps y's low k bits
                    if not xs and xc < 0 and (-xc) & (-xc - 1) == 0:
                        return _bl.SymbolicInt(x + (y % (-xc)))
                    # x multiple of 2^k, y in [0, 2^k)
                    if xs:
                        ks = (8,)
                    else:
                        ks = (_trailing_zeros(xc),) if xc != 0 else ()
                    for k in ks:
                        if k <= 0:
                            continue
                        m = 2 ** k
                        cond = z3.And(y >= 0, y < m, x % m == 0)
                        if not space.is_possible(z3.Not(cond)):
                            return _bl.SymbolicInt(x + y)
        return prev_or(op, a, b)

    def and_contiguous(op, a: Union[int, SymbolicInt], b: Union[int, SymbolicInt]):
        with NoTracing():
            for x, m in ((a, b), (b, a)):
                if isinstance(x, _bl.SymbolicInt) and isinstance(m, int) \
                        and not isinstance(m, (bool, _bl.SymbolicInt)) and m > 0:
                    lo = _trailing_zeros(m)
                    run = m >> lo
                    if run & (run + 1) == 0 and lo > 0:     # contiguous ones, not a low mask
                        return _bl.SymbolicInt(((x.var / (2 ** lo)) % (run + 1)) * (2 ** lo))
        return prev_and(op, a, b)

    _bl.setup_binop(or_disjoint, {ops.or_})
    _bl.setup_binop(and_contiguous, {ops.and_})
    # forget cached dispatch decisions for these operators
    for key in [k for k in _bl._BIN_OPS if k[0] in (ops.or_, ops.and_)]:
        del _bl._BIN_OPS[key]
