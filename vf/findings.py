"""Known findings: genuine defects recorded rather than repaired (DESIGN.md section 8).

/verif/known_findings.json is read-only at run time.  An entry names the property, the
harness, the violation kind and a small predicate over the violation's signature, so a
*different* violation of the same property is still reported.
"""
import json
import os

PATH = os.path.join(os.path.dirname(os.path.dirname(os.path.abspath(__file__))), "known_findings.json")


def load():
    if not os.path.exists(PATH):
        return {"findings": [], "fixed": []}
    with open(PATH) as f:
        return json.load(f)


def _match_value(want, got):
    if isinstance(want, dict):
        for op, ref in want.items():
            if op == "le":
                if not (isinstance(got, (int, float)) and got <= ref):
                    return False
            elif op == "ge":
                if not (isinstance(got, (int, float)) and got >= ref):
                    return False
            elif op == "in":
                if got not in ref:
                    return False
            elif op == "ne":
                if got == ref:
                    return False
            else:
                return False
        return True
    return want == got


def matches(entry, prop, harness, kind, sig):
    if entry.get("property") != prop:
        return False
    hs = entry.get("harness")
    if hs is not None and harness not in (hs if isinstance(hs, list) else [hs]):
        return False
    if entry.get("kind") != kind:
        return False
    for k, want in (entry.get("match") or {}).items():
        if k not in sig or not _match_value(want, sig[k]):
            return False
    return True


def matcher(prop, harness):
    entries = [e for e in load().get("findings", []) if e.get("property") == prop]

    def known(kind, sig):
        for e in entries:
            if matches(e, prop, harness, kind, sig):
                return e["id"]
        return None
    return known


def describe(fid):
    for e in load().get("findings", []):
        if e["id"] == fid:
            return e.get("what", fid)
    return fid
