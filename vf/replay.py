"""Plain-CPython replay of a counterexample file against the working tree.

usage: <python> -m vf.replay <file.json>     (python3-vt or /venv/bin/python)
exit 1 when the recorded violation reproduces, 0 when it does not, 3 on harness error.
Prints one JSON line describing the outcome.
"""
import importlib
import json
import sys


def replay(path):
    from .api import repo_setup, run_concrete, unjson
    repo_setup()
    with open(path) as f:
        rec = json.load(f)
    mod = importlib.import_module(rec["module"])
    fn = getattr(mod, rec["fn"])
    draws = [(n, unjson(v)) for n, v in rec["draws"]]
    r = run_concrete(fn, rec["params"], draws)
    kinds = [v["kind"] for v in r.get("violations", [])]
    r["expected_kind"] = rec["expect"]["kind"]
    # any violation of the property under plain execution on these concrete inputs is a genuine counterexample,
    # also when the oracle that fires is not the one that fired symbolically
    r["reproduced"] = bool(kinds)
    r["same_kind"] = rec["expect"]["kind"] in kinds
    r["python"] = sys.version.split()[0]
    return r


def main(argv):
    sys.setrecursionlimit(20000)
    try:
        r = replay(argv[0])
    except Exception as e:
        import traceback
        print(json.dumps({"outcome": "harness_error", "error": repr(e),
                          "trace": traceback.format_exc()[-1500:], "reproduced": False}))
        return 3
    print(json.dumps(r))
    if r["outcome"] == "harness_error":
        return 3
    return 1 if r["reproduced"] else 0


if __name__ == "__main__":
    sys.exit(main(sys.argv[1:]))
